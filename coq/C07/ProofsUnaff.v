(* C07: unaffected_equal as a lower bound.  Knocking out the whole affected set (the faulted fetches
   and everything that transitively depends on them) loses nothing that the faulty run keeps: the
   data of the knocked-out run is contained in the data of the faulty run (which is contained in
   the fault-free data, by monotone).  Three runs in lockstep: knocked-out, faulty, fault-free. *)
From Gv Require Import lib.Bytes lib.Json C02.Model C02.Spec C07.Model C07.Spec C07.ProofsBase C07.ProofsErrors
     C07.ProofsSub C07.ProofsRep C07.ProofsSelect C07.ProofsMono C07.ProofsWf.
From Coq Require Import Lia PeanoNat.
Open Scope N_scope.

(* ---- updates that grow a value grow the tree ---- *)
Lemma sub_list_upd : forall a n x, forallb json_wf a = true ->
  (forall c, nth_error a n = Some c -> sub_b c x = true) -> sub_list a (list_set n x a) = true.
Proof.
  induction a as [|y a IH]; intros n x Hw Hc; [destruct n; reflexivity|].
  simpl in Hw. apply andb_prop in Hw as [W1 W2]. destruct n as [|n]; simpl.
  - rewrite (Hc y eq_refl). simpl. clear -W2. induction a as [|z a IH]; simpl; [reflexivity|].
    simpl in W2. apply andb_prop in W2 as [Z1 Z2]. rewrite (sub_refl z Z1). apply IH. exact Z2.
  - rewrite (sub_refl y W1). simpl. apply IH; [exact W2|]. intros c Hn. apply Hc. exact Hn.
Qed.

Lemma sub_set_loc_infl : forall l d v v', json_wf d = true -> get_loc l d = Some v -> sub_b v v' = true ->
  sub_b d (set_loc l v' d) = true.
Proof.
  induction l as [|[k|i] r IH]; intros d v v' Hw Hg Hs; simpl in *.
  - inversion Hg; subst. exact Hs.
  - destruct d as [| | | | |m]; try discriminate. destruct (obj_get k m) as [c|] eqn:G; [|discriminate].
    rewrite sub_obj_eq. apply sub_members_upd.
    + rewrite <- sub_obj_eq. apply sub_refl. exact Hw.
    + intros l' E. rewrite G in E. inversion E; subst l'. eapply IH; [|exact Hg|exact Hs].
      rewrite json_wf_obj in Hw. apply andb_prop in Hw as [_ Hv]. exact (obj_get_wf k m c Hv G).
  - destruct d as [| | | |a|]; try discriminate. destruct (nth_error a (N.to_nat i)) as [c|] eqn:G; [|discriminate].
    rewrite sub_arr_eq. rewrite json_wf_arr in Hw. apply sub_list_upd; [exact Hw|].
    intros c' E. rewrite G in E. inversion E; subst c'. eapply IH; [|exact Hg|exact Hs].
    rewrite forallb_forall in Hw. apply Hw. eapply nth_error_In. exact G.
Qed.

Lemma nth_list_set_same : forall {A} (a : list A) n x c, nth_error a n = Some c -> nth_error (list_set n x a) n = Some x.
Proof.
  induction a as [|y a IH]; intros n x c H; [destruct n; discriminate|].
  destruct n; simpl in *; [reflexivity|]. eapply IH. exact H.
Qed.

Lemma get_set_loc_same : forall l d v v', get_loc l d = Some v -> get_loc l (set_loc l v' d) = Some v'.
Proof.
  induction l as [|[k|i] r IH]; intros d v v' Hg; simpl in *; [reflexivity| |].
  - destruct d as [| | | | |m]; try discriminate. destruct (obj_get k m) as [c|] eqn:G; [|discriminate].
    simpl. rewrite (obj_get_set_eq k k _ m (bytes_eqb_refl k)). eapply IH. exact Hg.
  - destruct d as [| | | |a|]; try discriminate. destruct (nth_error a (N.to_nat i)) as [c|] eqn:G; [|discriminate].
    simpl. rewrite (nth_list_set_same a (N.to_nat i) _ c G). eapply IH. exact Hg.
Qed.

Lemma merge_obj_false : forall ma b a' ch, merge (JObj ma) b = Some (a', ch) -> ch = false.
Proof.
  intros ma b a' ch H. destruct b; simpl in H; try discriminate.
  - inversion H. reflexivity.
  - rewrite <- (merge_obj_eq ma members) in H || idtac.
    change (merge (JObj ma) (JObj members) = Some (a', ch)) in H. rewrite merge_obj_eq in H.
    destruct (merge_members ma members); inversion H. reflexivity.
Qed.

(* ---- one merge: stays below the bound, grows, keeps wf, and (if it did not fail) contains the source ---- *)
Definition contained (d : json) (t : rpath * json) : Prop := exists w, get_loc (fst t) d = Some w /\ sub_b (snd t) w = true.

Lemma contained_mono : forall d d' t, sub_b d d' = true -> contained d t -> contained d' t.
Proof.
  intros d d' [l src] Hs (w & Hw & Hsw). destruct (sub_get_loc _ _ _ _ Hs Hw) as (w' & Hw' & Hww').
  exists w'. split; [exact Hw'|]. eapply sub_trans; eassumption.
Qed.

Lemma merge_target_facts : forall f s l src D w, f_mergepath f = [] ->
  sub_b (ls_data s) D = true -> get_loc l D = Some w -> sub_b src w = true ->
  json_wf (ls_data s) = true -> json_wf src = true ->
  let s' := merge_target f s l src in
  sub_b (ls_data s') D = true /\ sub_b (ls_data s) (ls_data s') = true /\ json_wf (ls_data s') = true /\
  (ls_hard s' = false -> ls_hard s = false /\
     ((exists m, get_loc l (ls_data s) = Some (JObj m)) -> contained (ls_data s') (l, src))).
Proof.
  intros f s l src D w Hmp Hs Hg Hsrc Wd Wsrc. cbv zeta.
  pose proof (merge_target_sub f s l src D w Hmp Hs Hg Hsrc) as Hsub.
  split; [exact Hsub|]. unfold merge_target in *.
  destruct (ls_hard s) eqn:Hh.
  { split; [apply sub_refl; exact Wd|]. split; [exact Wd|]. intros E. rewrite Hh in E. discriminate. }
  destruct (get_loc l (ls_data s)) as [a|] eqn:Ga.
  2:{ split; [apply sub_refl; exact Wd|]. split; [exact Wd|]. intros _. split; [reflexivity|]. intros (m & E). discriminate. }
  rewrite Hmp in *. unfold merge_with_path in *. cbn [wrap_path] in *.
  destruct (sub_get_loc _ _ _ _ Hs Ga) as (w' & Hw' & Haw). rewrite Hg in Hw'. inversion Hw'; subst w'.
  assert (Wa : json_wf a = true) by exact (get_loc_wf l (ls_data s) a Wd Ga).
  destruct (merge a src) as [[a' ch]|] eqn:M.
  2:{ split; [apply sub_refl; exact Wd|]. split; [exact Wd|]. intros E. discriminate. }
  destruct (merge_upper _ _ _ _ _ M Haw Hsrc Wa Wsrc) as [Ua Ub].
  destruct ch.
  - split; [apply sub_refl; exact Wd|]. split; [exact Wd|]. intros _. split; [reflexivity|].
    intros (m & E). inversion E; subst a. apply merge_obj_false in M. discriminate.
  - cbn [ls_data set_data ls_hard]. split; [eapply sub_set_loc_infl; eassumption|].
    split; [apply set_loc_wf; [exact Wd|exact (merge_wf src a a' false M Wa Wsrc)]|].
    intros _. split; [reflexivity|]. intros _. exists a'. split; [eapply get_set_loc_same; exact Ga|exact Ub].
Qed.

Lemma obj_persist : forall l d d' m, sub_b d d' = true -> get_loc l d = Some (JObj m) -> exists m', get_loc l d' = Some (JObj m').
Proof.
  intros l d d' m Hs Hg. destruct (sub_get_loc _ _ _ _ Hs Hg) as (w & Hw & Hmw).
  destruct (sub_obj_inv _ _ Hmw) as (m' & -> & _). exists m'. exact Hw.
Qed.

Definition is_obj_at (d : json) (l : rpath) : Prop := exists m, get_loc l d = Some (JObj m).

Lemma fold_target_facts : forall f src targets s D, f_mergepath f = [] ->
  sub_b (ls_data s) D = true -> json_wf (ls_data s) = true -> json_wf src = true ->
  (forall l, In l targets -> exists w, get_loc l D = Some w /\ sub_b src w = true) ->
  let s' := fold_left (fun s l => merge_target f s l src) targets s in
  sub_b (ls_data s') D = true /\ sub_b (ls_data s) (ls_data s') = true /\ json_wf (ls_data s') = true /\
  (ls_hard s' = false -> ls_hard s = false /\ forall l, In l targets -> is_obj_at (ls_data s) l -> contained (ls_data s') (l, src)).
Proof.
  intros f src targets. induction targets as [|l r IH]; intros s D Hmp Hs Wd Wsrc Ht; cbv zeta; simpl.
  - split; [exact Hs|]. split; [apply sub_refl; exact Wd|]. split; [exact Wd|]. intros Hh. split; [exact Hh|intros l []].
  - destruct (Ht l (or_introl eq_refl)) as (w & Hw & Hsw).
    destruct (merge_target_facts f s l src D w Hmp Hs Hw Hsw Wd Wsrc) as (A1 & A2 & A3 & A4).
    destruct (IH (merge_target f s l src) D Hmp A1 A3 Wsrc (fun l' H => Ht l' (or_intror H))) as (B1 & B2 & B3 & B4).
    split; [exact B1|]. split; [eapply sub_trans; eassumption|]. split; [exact B3|].
    intros Hh. destruct (B4 Hh) as [Hh1 Hc1]. destruct (A4 Hh1) as [Hh0 Hc0]. split; [exact Hh0|].
    intros l' [<-|Hin] Hobj.
    + eapply contained_mono; [exact B2|]. apply Hc0. exact Hobj.
    + apply Hc1; [exact Hin|]. destruct Hobj as (m & Hm). eapply obj_persist; eassumption.
Qed.

Lemma buckets_facts : forall f bs ents s D, f_mergepath f = [] ->
  sub_b (ls_data s) D = true -> json_wf (ls_data s) = true -> forallb json_wf ents = true ->
  (forall locs src, In (locs, src) (combine bs ents) -> forall l, In l locs -> exists w, get_loc l D = Some w /\ sub_b src w = true) ->
  let s' := merge_buckets f s bs ents in
  sub_b (ls_data s') D = true /\ sub_b (ls_data s) (ls_data s') = true /\ json_wf (ls_data s') = true /\
  (ls_hard s' = false -> ls_hard s = false /\
     forall locs src, In (locs, src) (combine bs ents) -> forall l, In l locs -> is_obj_at (ls_data s) l -> contained (ls_data s') (l, src)).
Proof.
  intros f bs. induction bs as [|b bs IH]; intros ents s D Hmp Hs Wd We Ht; cbv zeta; simpl.
  - split; [exact Hs|]. split; [apply sub_refl; exact Wd|]. split; [exact Wd|]. intros Hh. split; [exact Hh|intros ? ? []].
  - destruct ents as [|src ents].
    { split; [exact Hs|]. split; [apply sub_refl; exact Wd|]. split; [exact Wd|]. intros Hh. split; [exact Hh|intros ? ? []]. }
    simpl in We. apply andb_prop in We as [W1 W2].
    destruct (fold_target_facts f src b s D Hmp Hs Wd W1 (fun l H => Ht b src (or_introl eq_refl) l H)) as (A1 & A2 & A3 & A4).
    destruct (IH ents _ D Hmp A1 A3 W2 (fun locs src' H => Ht locs src' (or_intror H))) as (B1 & B2 & B3 & B4).
    split; [exact B1|]. split; [eapply sub_trans; eassumption|]. split; [exact B3|].
    intros Hh. destruct (B4 Hh) as [Hh1 Hc1]. destruct (A4 Hh1) as [Hh0 Hc0]. split; [exact Hh0|].
    intros locs src' [E|Hin] l Hl Hobj.
    + inversion E; subst. eapply contained_mono; [exact B2|]. apply Hc0; assumption.
    + eapply Hc1; [exact Hin|exact Hl|]. destruct Hobj as (m & Hm). eapply obj_persist; eassumption.
Qed.

(* ---- the shape of mergeResult on a response that parses ---- *)
Lemma merge_result_nullish : forall f res items batch s resp,
  rs_err res = false -> rs_body res = BJson resp -> is_nullish (get_loc (f_datapath f) resp) = true ->
  ls_data (merge_result f res items batch s) = ls_data s /\ ls_hard (merge_result f res items batch s) = ls_hard s.
Proof.
  intros f res items batch s resp He Hb Hn. unfold merge_result. rewrite He, Hb, Hn.
  destruct (match get_loc [PName k_errors] resp with Some (JArr (_ :: _)) => true | _ => false end);
    destruct (is_entity_kind (f_kind f) && _); try (split; reflexivity);
    cbn [negb andb]; try (destruct (non2xx (rs_status res)); split; reflexivity); split; reflexivity.
Qed.

Lemma merge_result_one : forall f res l s resp rd,
  rs_err res = false -> rs_body res = BJson resp -> get_loc (f_datapath f) resp = Some rd -> is_nullish (Some rd) = false ->
  exists s1, ls_data s1 = ls_data s /\ ls_hard s1 = ls_hard s /\ merge_result f res [l] None s = merge_target f s1 l rd.
Proof.
  intros f res l s resp rd He Hb Hg Hn. unfold merge_result. rewrite He, Hb, Hg, Hn.
  eexists. split; [|split; [|reflexivity]];
    destruct (match get_loc [PName k_errors] resp with Some (JArr (_ :: _)) => true | _ => false end); reflexivity.
Qed.

Lemma merge_result_many : forall f res items bs s resp e es,
  rs_err res = false -> rs_body res = BJson resp -> get_loc (f_datapath f) resp = Some (JArr (e :: es)) ->
  items <> [] -> length bs = length (e :: es) ->
  exists s1, ls_data s1 = ls_data s /\ ls_hard s1 = ls_hard s /\ merge_result f res items (Some bs) s = merge_buckets f s1 bs (e :: es).
Proof.
  intros f res items bs s resp e es He Hb Hg Hne Hlen. unfold merge_result. rewrite He, Hb, Hg. cbn [is_nullish].
  destruct items as [|l [|l2 r]]; [congruence| |]; rewrite Hlen, Nat.eqb_refl;
    (eexists; split; [|split; [|reflexivity]];
     destruct (match get_loc [PName k_errors] resp with Some (JArr (_ :: _)) => true | _ => false end); reflexivity).
Qed.

(* ---- the shape of a load (analysis of prepare on the run's own data) ---- *)
Lemma flat_render_some_obj : forall fields v b, flat_render fields v = Some b -> bytes_eqb b b_null = false -> exists m, v = JObj m.
Proof.
  intros fields v b H N. destruct v; simpl in H; try discriminate.
  - inversion H; subst. rewrite bytes_eqb_refl in N. discriminate.
  - eexists. reflexivity.
Qed.

Lemma shape_of_load : forall kind_of f dataF dF rqF batchF, fetch_ok kind_of f = true ->
  prepare f dataF (select_items dataF (f_path f)) = PLoad dF rqF batchF ->
  load_shape f dataF (select_items dataF (f_path f)) rqF batchF.
Proof.
  intros kind_of f dataF dF rqF batchF Hok HP.
  destruct (fetch_ok_inv kind_of f Hok) as (Hk & Hd & Hnt & Hmp & Hkind).
  unfold load_shape. destruct (f_kind f) eqn:K.
  - rewrite Hkind in *. change (select_items dataF []) with [@nil pelem] in *.
    unfold prepare in HP. rewrite K in HP. cbn [get_loc] in HP.
    split; [reflexivity|]. destruct dataF; inversion HP; split; reflexivity.
  - destruct (rep_wf_inv _ Hkind) as (ty & inacc & fields & Hrep & Hf).
    set (itemsF := select_items dataF (f_path f)) in *.
    unfold prepare in HP. rewrite K, Hrep in HP. rewrite (render_rep_flat ty inacc fields _ Hf) in HP.
    destruct (flat_render fields (items_data dataF itemsF)) as [b|] eqn:FR; [|discriminate].
    destruct (bytes_eqb b b_null || bytes_eqb b b_empty_obj) eqn:Sk; [discriminate|].
    apply Bool.orb_false_elim in Sk as [N1 N2]. inversion HP; subst rqF batchF. clear HP.
    destruct itemsF as [|l [|l2 r]] eqn:EI.
    + simpl in FR. inversion FR; subst b. rewrite bytes_eqb_refl in N1. discriminate.
    + unfold items_data in FR. destruct (get_loc l dataF) as [vF|] eqn:G.
      * destruct (flat_render_some_obj _ _ _ FR N1) as (m & ->). exists l, b, m. repeat split; assumption.
      * simpl in FR. inversion FR; subst b. rewrite bytes_eqb_refl in N1. discriminate.
    + simpl in FR. discriminate.
  - destruct (rep_wf_inv _ Hkind) as (ty & inacc & fields & Hrep & Hf).
    set (itemsF := select_items dataF (f_path f)) in *.
    destruct (batch_prepare_flat ty inacc fields itemsF dataF [] Hf) as (bsF & HbF & HspecF).
    unfold prepare in HP. rewrite K, Hrep, HbF in HP. rewrite Hrep, HbF. cbn [snd].
    exists bsF. split; [reflexivity|]. destruct bsF as [|bk0 bsF'] eqn:EB; [discriminate|]. rewrite <- EB in *.
    split; [rewrite EB; discriminate|]. inversion HP; subst rqF batchF. split; [reflexivity|]. split; [reflexivity|].
    intros b l Hin. apply HspecF in Hin as [(locs & [] & _)|[Hl (vF & GF & FRv & N1 & N2)]].
    destruct (flat_render_some_obj _ _ _ FRv N1) as (m & ->). exists m. try subst dF. exact GF.
Qed.

(* no array on the path: at most one item, also under smaller data *)
Lemma select_len_noarr : forall dF d0 path iF i0, sub_b dF d0 = true -> no_types path = true ->
  items_inv dF iF i0 -> (length iF <= 1)%nat -> noarr_path d0 path i0 = true ->
  (length (fold_left (fun items pe => select_step dF pe items) path iF) <= 1)%nat.
Proof.
  intros dF d0 path. induction path as [|pe r IH]; intros iF i0 Hs Ht Hi Hl Hn; simpl; [exact Hl|].
  unfold no_types in Ht. simpl in Ht. apply andb_prop in Ht as [T1 T2]. simpl in Hn. apply andb_prop in Hn as [N1 N2].
  assert (Hty : pe_types pe = []) by (destruct (pe_types pe); [reflexivity|discriminate]).
  apply (IH (select_step dF pe iF) (select_step d0 pe i0)); try assumption.
  - apply select_step_inv; assumption.
  - unfold select_step. destruct (pe_path pe) as [|n0 ns] eqn:P; [exact Hl|].
    destruct iF as [|l [|l2 rr]]; [simpl; lia| |simpl in Hl; lia].
    cbn [flat_map]. rewrite app_nil_r. destruct (get_loc l dF) as [vF|] eqn:GF; [|simpl; lia].
    rewrite Hty. cbn [allowed_by_typename].
    destruct (get_path (n0 :: ns) vF) as [xF|] eqn:PF; [|simpl; lia].
    destruct xF as [| | | |aF|]; try (simpl; lia).
    exfalso. destruct (Hi l (or_introl eq_refl)) as [Hin0|Hnull].
    + destruct (sub_get_loc _ _ _ _ Hs GF) as (v0 & G0 & Hv).
      rewrite get_path_loc in PF. destruct (sub_get_loc _ _ _ _ Hv PF) as (x0 & P0 & Hx).
      destruct (sub_arr_inv _ _ Hx) as (a0 & -> & _).
      rewrite forallb_forall in N1. specialize (N1 l Hin0). rewrite G0 in N1. rewrite ?P in N1. rewrite get_path_loc, P0 in N1. discriminate.
    + rewrite Hnull in GF. inversion GF; subst vF. simpl in PF. discriminate.
Qed.
