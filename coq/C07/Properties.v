(* C07 property theorems: statements only; every proof is [exact lemma]. (in progress) *)
From Gv Require Import lib.Bytes lib.Json C02.Model C07.Model C07.Spec.
