(* C07 property theorems: statements only; every proof is [exact lemma].

   Vocabulary (C07/Model.v, C07/Spec.v):
   [run answer root_answer kind_of F t]  the loader state after running fetch tree [t] against the
       pointwise deterministic subgraphs ([answer fetch representation], [root_answer fetch]) under
       the fault map [F : fetch id -> option fault] (a fetch sends at most one request per run);
   [no_faults]                            the empty fault map;
   [finish root s]                        the response: loader errors, then the C02 renderer on the data;
   [fplan_wf]                              what planner + post-processor guarantee: post-processing paths by
       fetch kind, single fetches at the root, flat non-null representation variables under an
       `on type` condition, no type-conditioned path elements, dependencies earlier in the tree;
   [consistent]                           the fault-free run never overwrites: after each fetch the old data is
       contained in the new, an entity fetch saw at most one item, every merged answer is contained
       at its target (evaluated on every generated case by the driver: coverage "consistent");
   [loud]                                 the failure kinds of the property text (transport error, non-2xx with empty /
       non-JSON / errors-only body, empty body, non-JSON, truncated, `NaN`, errors without data,
       `data: null`), and the `_entities` count faults for batch fetches;
   [sub_b a b]                            a equals b except for absent object members and nulls;
   [roots_are_objects]                    the data member of a root answer is an object;
   [run_v0]                               the same run with the loader's mergeResult BEFORE the three repairs
       (work/c07_fix_*.patch; ModelPreFix.v): the `_refuted` theorems are historical, about that function. *)
From Gv Require Import lib.Bytes lib.Json C02.Model C02.Spec C07.Model C07.ModelPreFix C07.Spec
     C07.ProofsErrors C07.ProofsMono C07.ProofsJson C07.ProofsUnaff C07.ProofsSkip C07.ProofsExamples
     C07.ModelTaint C07.SpecTaint C07.ProofsSelect C07.ProofsTaint C07.ProofsTaintExamples.
From Coq Require Import String.
Open Scope N_scope.
Open Scope string_scope.

(* monotone: under any set of loud faults the merged data is the fault-free data with subtrees
   absent or null -- for every well-formed plan, pointwise subgraphs and fault map *)
Theorem c07_monotone :
  forall (answer : N -> bytes -> json * list json) (root_answer : N -> json * list json) (kind_of : N -> fkind)
         (F : N -> option fault) (t : ftree),
    (forall id k, F id = Some k -> loud (kind_of id) k = true) -> roots_are_objects root_answer ->
    fplan_wf kind_of t = true -> consistent answer root_answer kind_of t = true ->
    sub_b (ls_data (run answer root_answer kind_of F t)) (ls_data (run answer root_answer kind_of no_faults t)) = true.
Proof. exact monotone_proof. Qed.
Print Assumptions c07_monotone.

(* no corruption: every scalar present in the data under the faults is the fault-free scalar at
   that location *)
Theorem c07_unaffected_identical :
  forall (answer : N -> bytes -> json * list json) (root_answer : N -> json * list json) (kind_of : N -> fkind)
         (F : N -> option fault) (t : ftree),
    (forall id k, F id = Some k -> loud (kind_of id) k = true) -> roots_are_objects root_answer ->
    fplan_wf kind_of t = true -> consistent answer root_answer kind_of t = true ->
    forall l v, get_loc l (ls_data (run answer root_answer kind_of F t)) = Some v -> is_atom v = true ->
    get_loc l (ls_data (run answer root_answer kind_of no_faults t)) = Some v.
Proof. exact no_corruption_proof. Qed.
Print Assumptions c07_unaffected_identical.

(* unaffected_equal: let A contain the faulted fetches and be closed under dependants ([closed_in]:
   whoever depends on a member is a member).  Knocking out ALL of A (a transport error for every
   member, so that nothing of A contributes and nothing outside A is touched) loses nothing that the
   faulty run keeps: the data of that run is contained in the data of the faulty run -- which is
   contained in the fault-free data (c07_monotone), where every scalar is the fault-free scalar
   (c07_unaffected_identical).  So what the fetches outside A produce is all present, unchanged.
   Needs subgraph answers without duplicate object keys ([json_wf]) and with RFC 8259 number tokens
   ([answers_valid]), and a faulty run that does not
   fail as a whole (see c07_response_merge_order_refuted for how it can). *)
Theorem c07_unaffected_equal :
  forall (answer : N -> bytes -> json * list json) (root_answer : N -> json * list json) (kind_of : N -> fkind)
         (F : N -> option fault) (A : N -> bool) (t : ftree),
    (forall id k, F id = Some k -> loud (kind_of id) k = true) ->
    (forall id rep, json_wf (fst (answer id rep)) = true) ->
    (forall id rep, obj_or_null (fst (answer id rep)) = true) ->   (* an `_entities` item is an object or null *)
    (forall id, json_wf (fst (root_answer id)) = true) ->
    roots_are_objects root_answer -> answers_valid answer root_answer ->
    (forall id k, F id = Some k -> A id = true) -> closed_in A t ->
    fplan_wf kind_of t = true -> consistent answer root_answer kind_of t = true ->
    ls_hard (run answer root_answer kind_of F t) = false ->
    sub_b (ls_data (run answer root_answer kind_of (knock A) t)) (ls_data (run answer root_answer kind_of F t)) = true.
Proof. exact unaffected_lower_proof'. Qed.
Print Assumptions c07_unaffected_equal.

(* HISTORICAL: requests_subset was false of the loader before the repair: a nullable @requires field
   whose provider failed (any non-transport failure) was sent as null to the dependent subgraph *)
Theorem c07_requests_subset_refuted :
  exists answer root_answer kind_of t F,
    forallb (fetch_wf kind_of) (fetches_of t) = true /\
    (forall id k, F id = Some k -> loud (kind_of id) k = true) /\
    requests_subset_b (ls_reqs (run_v0 answer root_answer kind_of no_faults t)) (ls_reqs (run_v0 answer root_answer kind_of F t)) = false.
Proof. exact requests_subset_refuted_proof. Qed.
Print Assumptions c07_requests_subset_refuted.

(* requests_subset: every request sent under the faults is covered by a fault-free request of the same
   fetch (same datasource and operation text, representations a subset) *)
Theorem c07_requests_subset :
  forall (answer : N -> bytes -> json * list json) (root_answer : N -> json * list json) (kind_of : N -> fkind)
         (F : N -> option fault) (t : ftree),
    (forall id k, F id = Some k -> loud (kind_of id) k = true) -> roots_are_objects root_answer ->
    fplan_wf kind_of t = true -> consistent answer root_answer kind_of t = true ->
    requests_subset_b (ls_reqs (run answer root_answer kind_of no_faults t)) (ls_reqs (run answer root_answer kind_of F t)) = true.
Proof. exact requests_subset_proof. Qed.
Print Assumptions c07_requests_subset.

(* requests_subset above is about plans whose representation inputs are non-null ([fplan_wf]): there a
   dependant whose input is missing does not render and the erroredFetchIDs bookkeeping is not needed.
   With NULLABLE @requires inputs the representation renders with null, and only the bookkeeping keeps the
   dependant from being sent.  The next two theorems are about that bookkeeping, for any representations,
   any answers and any fetch tree whose dependencies come earlier ([deps_before]):
   (1) every fetch whose request was hit by a failure kind of the property is recorded as errored
       (after the repair: every kind, not only the transport error);
   (2) the skip is TRANSITIVE although DependsOnFetchIDs lists direct dependencies only, because a
       skipped fetch is recorded itself: a fetch that depends through any number of fetches
       ([dep_reach]) on a fetch whose request failed is recorded and sends no request.
   [ls_hard s = false]: the resolve did not abort (an aborted resolve writes no response).
   [fault_fits F]: the wrong-kind faults ([FtItems], `data` a string / number / list on a root fetch) are reported through
   mergeableData (eb6ed70), which the loader consults only when the fetch has an empty MergePath: a fetch hit by one of
   them has none (vacuous for every other kind and for plans without merge paths: fplan_wf). *)
Theorem c07_failed_recorded :
  forall (answer : N -> bytes -> json * list json) (root_answer : N -> json * list json) (kind_of : N -> fkind)
         (F : N -> option fault) (t : ftree),
    (forall id k, F id = Some k -> loud (kind_of id) k = true) -> roots_are_objects root_answer ->
    forallb (fetch_wf kind_of) (fetches_of t) = true -> forallb (fault_fits F) (fetches_of t) = true ->
    forall rq, In rq (ls_reqs (run answer root_answer kind_of F t)) -> F (rq_fetch rq) <> None ->
    In (rq_fetch rq) (ls_errored (run answer root_answer kind_of F t)).
Proof. exact failed_recorded_thm. Qed.
Print Assumptions c07_failed_recorded.

Theorem c07_skip_transitive :
  forall (answer : N -> bytes -> json * list json) (root_answer : N -> json * list json) (kind_of : N -> fkind)
         (F : N -> option fault) (t : ftree),
    (forall id k, F id = Some k -> loud (kind_of id) k = true) -> roots_are_objects root_answer ->
    forallb (fetch_wf kind_of) (fetches_of t) = true -> forallb (fault_fits F) (fetches_of t) = true -> deps_before t = true ->
    let s := run answer root_answer kind_of F t in
    ls_hard s = false ->
    forall rq0, In rq0 (ls_reqs s) -> F (rq_fetch rq0) <> None ->
    forall f, dep_reach (fetches_of t) (rq_fetch rq0) f ->
      In (f_id f) (ls_errored s) /\ forall rq, In rq (ls_reqs s) -> rq_fetch rq <> f_id f.
Proof. exact skip_transitive_thm. Qed.
Print Assumptions c07_skip_transitive.

(* non-vacuity: the four-fetch chain of plan 5 (f3 depends on f0 and on the skipped f2 only; nullable inputs);
   fault-free all four requests go out, under an empty body for f1 only f0 and f1, and the hypotheses of
   c07_skip_transitive hold for f3 *)
Example c07_skip_transitive_chain :
  let F := fault_at 1 FtEmpty in
  forallb (fetch_wf p5_kind) (fetches_of p5_tree) = true /\ deps_before p5_tree = true /\
  List.map rq_fetch (ls_reqs (p5_run no_faults)) = [0; 1; 2; 3] /\
  ls_hard (p5_run F) = false /\
  (exists rq0, In rq0 (ls_reqs (p5_run F)) /\ F (rq_fetch rq0) <> None /\ dep_reach (fetches_of p5_tree) (rq_fetch rq0) p5_f3 /\
               ~ In (rq_fetch rq0) (f_deps p5_f3)) /\
  List.map rq_fetch (ls_reqs (p5_run F)) = [0; 1].
Proof.
  cbv zeta. split; [vm_compute; reflexivity|]. split; [vm_compute; reflexivity|]. split; [vm_compute; reflexivity|].
  split; [vm_compute; reflexivity|]. split; [|vm_compute; reflexivity].
  eexists. split; [right; left; reflexivity|]. split; [vm_compute; discriminate|]. split.
  - apply DR_step with (h := p5_f2).
    + apply DR_direct; [right; right; left; reflexivity|right; left; reflexivity].
    + right; right; right; left; reflexivity.
    + right; left; reflexivity.
  - vm_compute. intros [H|[H|[]]]; discriminate.
Qed.

(* HISTORICAL: before the repair a single-entity fetch answered with `_entities: []` ("wrong entity
   count") was taken for "entity not found" and nothing was reported *)
Theorem c07_errors_nonempty_refuted :
  exists answer root_answer kind_of t root F,
    forallb (fetch_wf kind_of) (fetches_of t) = true /\ root_wf root = true /\
    (exists rq, In rq (ls_reqs (run_v0 answer root_answer kind_of no_faults t)) /\ F (rq_fetch rq) = Some FtCountLess) /\
    let o := finish root (run_v0 answer root_answer kind_of F t) in
    o_failed o = false /\ o_lerrors o = [] /\ r_errors (o_resolved o) = [].
Proof. exact errors_nonempty_refuted_proof. Qed.
Print Assumptions c07_errors_nonempty_refuted.

(* errors_nonempty, for the whole list of failure kinds of the property ([loud]): if some request of the
   fault-free run is faulted, the response carries at least one (loader) error *)
Theorem c07_errors_nonempty :
  forall (answer : N -> bytes -> json * list json) (root_answer : N -> json * list json) (kind_of : N -> fkind)
         (F : N -> option fault) (t : ftree),
    (forall id k, F id = Some k -> loud (kind_of id) k = true) -> roots_are_objects root_answer ->
    forallb (fetch_wf kind_of) (fetches_of t) = true -> forallb (fault_fits F) (fetches_of t) = true ->
    (exists rq, In rq (ls_reqs (run answer root_answer kind_of no_faults t)) /\ F (rq_fetch rq) <> None) ->
    ls_errors (run answer root_answer kind_of F t) <> [].
Proof. exact errors_nonempty_proof. Qed.
Print Assumptions c07_errors_nonempty.

(* HISTORICAL (before eb6ed70, finding wrong-kind-data-aborts-response; ModelPreFix.run_v0): an `_entities` list of the right
   length whose items are numbers / strings / lists ([FtItems]; also `data` itself of the wrong kind on a root fetch) was not a
   failure the loader isolated: MergeValues returned ErrMergeDifferentTypes, mergeResult returned it, the resolve aborted and
   NO response was written.  The repaired loader reports them (mergeableData): they are [loud], so c07_errors_nonempty,
   c07_failed_recorded, c07_skip_transitive, c07_monotone, c07_unaffected_*, c07_requests_subset cover them
   (ProofsErrors.items_outcome, data_kind_outcome; ProofsExamples.p1_wrong_kind_repaired). *)
Theorem c07_wrong_kind_aborts_refuted :
  exists answer root_answer kind_of t root F,
    forallb (fetch_wf kind_of) (fetches_of t) = true /\ root_wf root = true /\
    (exists rq ik we s5, In rq (ls_reqs (run_v0 answer root_answer kind_of no_faults t)) /\ F (rq_fetch rq) = Some (FtItems ik we s5)) /\
    o_failed (finish root (run_v0 answer root_answer kind_of F t)) = true.
Proof. exact wrong_kind_aborts_proof. Qed.
Print Assumptions c07_wrong_kind_aborts_refuted.

(* [loud] for the null / wrong-kind shapes and items (non-vacuity: ProofsExamples.p1_null_entities_list, p1_wrong_kind_repaired) *)
Example c07_loud_shapes :
  forall sh we s5 ik, loud FEntity (FtShape sh we s5) = true /\ loud FBatch (FtShape sh we s5) = true /\
                      loud FEntity (FtItems ik we s5) = true /\ loud FBatch (FtItems ik we s5) = true /\
                      loud FSingle (FtShape ShDataStr we s5) = true /\ loud FSingle (FtShape ShDataEmpty we s5) = false.
Proof. intros. repeat split; reflexivity. Qed.

(* valid_json (corollary of C02.resolve_refines_complete): whatever the loader state, the data member
   of the response is the marshalling of the C02 completion of the merged data (or `null`), the
   renderer neither panics nor reports a print error *)
Theorem c07_valid_json :
  forall (root : node) (s : lstate),
    root_wf root = true ->
    let o := finish root s in
    r_data (o_resolved o) = data_bytes (fst (complete_root no_deny root (ls_data s))) /\
    r_panic (o_resolved o) = false /\ r_render_err (o_resolved o) = false.
Proof. exact valid_json_proof. Qed.
Print Assumptions c07_valid_json.

(* HISTORICAL: a marshalled tree is RFC 8259 text only if its number tokens are; before the repair a subgraph
   body with `NaN` (which astjson parses as a number) was rendered verbatim.  (parsedResponse now rejects it.) *)
Theorem c07_valid_json_refuted :
  exists root_answer t root F,
    root_wf root = true /\
    let o := finish root (run_v0 (fun _ _ => (JNull, [])) root_answer (fun _ => FSingle) F t) in
    o_failed o = false /\ o_lerrors o = [] /\ r_errors (o_resolved o) = [] /\
    r_data (o_resolved o) = [123; 34; 100; 34; 58; 78; 97; 78; 125].
Proof. exact valid_json_refuted_proof. Qed.
Print Assumptions c07_valid_json_refuted.

(* "still returns one well-formed response" is false of the loader even without an injected fault:
   two independent entity fetches at the same object select the same object field, one subgraph
   answers it with null (and an error), the other with an object; MergeValues(null, object) is
   ErrMergeDifferentTypes, so if the null is merged first the request fails as a whole (nothing is
   written), in the other order it succeeds -- inside a Parallel group the order is the schedule's.
   Replayed on the Go code: harness/bin/c07 probe-null-object. *)
Theorem c07_response_merge_order_refuted :
  exists answer root_answer kind_of t1 t2 root,
    root_wf root = true /\
    fetches_of t1 = [p4_f0; p4_f1; p4_f2] /\ fetches_of t2 = [p4_f0; p4_f2; p4_f1] /\
    o_failed (finish root (run answer root_answer kind_of no_faults t1)) = true /\
    let o := finish root (run answer root_answer kind_of no_faults t2) in
    o_failed o = false /\ List.map le_kind (o_lerrors o) = [LE_FETCH] /\
    r_data (o_resolved o) = bs "{""a"":{""p"":{""x"":null,""y"":""why""}}}".
Proof. exact merge_order_refuted_proof. Qed.
Print Assumptions c07_response_merge_order_refuted.

(* ---- non-vacuity: plan 1 of ProofsExamples (root fetch, entity fetch, de-duplicating batch fetch
   in a Sequence/Parallel tree) satisfies every hypothesis, with a loud fault that changes the data ---- *)
Example c07_unaffected_hypotheses_satisfiable :
  let A := fun id => N.eqb id 2 in
  closed_in A p1_tree /\ (forall id rep, json_wf (fst (p1_answer id rep)) = true) /\ (forall id, json_wf (fst (p1_root_answer id)) = true) /\
  roots_are_objects p1_root_answer /\ answers_valid p1_answer p1_root_answer /\
  ls_hard (p1_run (fault_at 2 FtNullData)) = false /\
  ls_data (p1_run (knock A)) = ls_data (p1_run (fault_at 2 FtNullData)) /\ ls_data (p1_run (knock A)) <> ls_data (p1_run no_faults).
Proof.
  cbv zeta. split.
  - intros f Hf d Hd Ha. simpl in Hf. destruct Hf as [<-|[<-|[<-|[]]]]; simpl in Hd; try contradiction; destruct Hd as [<-|[]]; discriminate.
  - split; [intros id rep; unfold p1_answer; destruct id as [|[| |]]; reflexivity|]. split; [intros id; reflexivity|].
    split; [intros id; eexists; reflexivity|].
    split; [split; [intros id rep; unfold p1_answer; destruct id as [|[| |]]; split; reflexivity|intros id; split; reflexivity]|].
    vm_compute. repeat split. discriminate.
Qed.

Example c07_hypotheses_satisfiable :
  fplan_wf p1_kind p1_tree = true /\ consistent p1_answer p1_root_answer p1_kind p1_tree = true /\
  loud (p1_kind 2) FtTransport = true /\
  ls_data (p1_run (fault_at 2 FtTransport)) <> ls_data (p1_run no_faults).
Proof. vm_compute. repeat split. discriminate. Qed.

(* ================= tainted objects (ResolverOptions.ValidateRequiredExternalFields; C07/ModelTaint.v) =================

   "Errors with partial data": a batch entity fetch is answered, but some entities come back with a nullable
   @requires input set to null and an `errors` entry whose path names the entity's position in `_entities` -- a position
   among the de-duplicated, non-skipped representations of the REQUEST, not among the items of the fetch.

   [load_t St exchange vre coords t x]   the loader with the taint bookkeeping: state (lstate, tainted locations);
   [coords id]                           FetchInfo.FetchReasons of fetch id that are IsRequires and Nullable, as (type, field);
   [tainted_indices vre cs f res]        getTaintedIndices on the response as mergeResult calls it;
   [in_buckets bs b l]                   item l is a merge target of the unique representation b (batchStats);
   [batch_merged f res n]                the response parsed and its `_entities` is a non-empty array of n entities;
   [is_tainted T l]                      l or something below l is in T (taintedObjects.isTainted);
   [apply_partial p r]                   response r with the fields [pf_nulls p] nulled and [pf_errors p] appended. *)

(* with the option off, or without nullable @requires reasons, this loader is the loader of the theorems above,
   for every exchange (subgraphs, faults, cache), tree and state *)
Theorem c07_taint_off_same :
  forall (St : Type) (exchange : St -> request -> response * St) (vre : bool) (coords : N -> list (bytes * bytes)),
    vre = false \/ (forall id, coords id = []) ->
    forall (t : ftree) (x : St),
    load_t St exchange (tainted_indices vre) coords t x = ((fst (load St exchange t x), []), snd (load St exchange t x)).
Proof. exact load_t_off'. Qed.
Print Assumptions c07_taint_off_same.

(* taint_exact: which objects a batch entity fetch taints, for every item list (duplicates, null items, items that do not
   render), every response and every state: an object is newly tainted iff the resolve did not abort, the response went
   through the merge, and an error path names the position k of the request at which the object's own representation b was
   sent -- the object is a merge target of b *)
Theorem c07_taint_exact :
  forall (vre : bool) (cs : list (bytes * bytes)) (f : fetch) (res : response) (items : list rpath) (data d' : json) (rq : request)
         (bl : list (list rpath)) (s : lstate) (T : list rpath),
    f_kind f = FBatch -> prepare f data items = PLoad d' rq (Some bl) ->
    let st' := merge_result_t (tainted_indices vre) cs f res items (Some bl) (s, T) in
    forall l, In l (snd st') <->
      In l T \/ (ls_hard (fst st') = false /\ batch_merged f res (List.length (rq_reps rq)) /\
                 exists k b, nth_error (rq_reps rq) k = Some b /\ In (N.of_nat k) (tainted_indices vre cs f res) /\
                             in_buckets (snd (batch_prepare (f_rep f) items data [])) b l).
Proof. intros vre. exact (taint_exact_thm (tainted_indices vre)). Qed.
Print Assumptions c07_taint_exact.

(* ... where the positions of the request are the buckets: the representations are pairwise distinct, bucket k holds exactly
   the items that render representation k, every member is an item *)
Theorem c07_buckets_partition :
  forall (f : fetch) (data : json) (items : list rpath) (d' : json) (rq : request) (bl : list (list rpath)),
    f_kind f = FBatch -> prepare f data items = PLoad d' rq (Some bl) ->
    let bs := snd (batch_prepare (f_rep f) items data []) in
    NoDup (rq_reps rq) /\ List.length bl = List.length (rq_reps rq) /\
    (forall b l, in_buckets bs b l -> In l items /\ In b (rq_reps rq)) /\
    (forall k b targets, nth_error (rq_reps rq) k = Some b -> nth_error bl k = Some targets -> forall l, In l targets <-> in_buckets bs b l).
Proof. exact buckets_partition_thm. Qed.
Print Assumptions c07_buckets_partition.

(* taints only grow along a run (any tree, exchange, option, state) *)
Theorem c07_taints_grow :
  forall (St : Type) (exchange : St -> request -> response * St) (vre : bool) (coords : N -> list (bytes * bytes))
         (t : ftree) (s : lstate) (T : list rpath) (x : St) (l : rpath),
    In l T -> In l (snd (fst (run_tree_t St exchange (tainted_indices vre) coords t ((s, T), x)))).
Proof. intros St exchange vre. exact (run_tree_t_grow St exchange (tainted_indices vre)). Qed.
Print Assumptions c07_taints_grow.

(* tainted_not_sent: in every state of every run, the items a fetch works on are the selected items that are not tainted;
   an object in T, and every object above it, is not among them; the members of a batch's buckets are such items; and the
   request the step sends (if any) is prepared from these items only.  With c07_taints_grow: once tainted, an object is in no
   later request. *)
Theorem c07_tainted_not_sent :
  forall (St : Type) (exchange : St -> request -> response * St) (vre : bool) (coords : N -> list (bytes * bytes))
         (f : fetch) (s : lstate) (T : list rpath),
    let items := filter_tainted T (select_items (ls_data s) (f_path f)) in
    (forall l, In l items -> In l (select_items (ls_data s) (f_path f)) /\ is_tainted T l = false) /\
    (forall l t, In t T -> rpath_prefix l t = true -> ~ In l items) /\
    (forall b l, in_buckets (snd (batch_prepare (f_rep f) items (ls_data s) [])) b l -> In l items) /\
    (forall x rq, In rq (ls_reqs (fst (fst (run_fetch_t St exchange (tainted_indices vre) coords f ((s, T), x))))) -> ~ In rq (ls_reqs s) ->
       exists d' batch, prepare f (ls_data s) items = PLoad d' rq batch).
Proof. intros St exchange vre. exact (tainted_not_sent_thm St exchange (tainted_indices vre)). Qed.
Print Assumptions c07_tainted_not_sent.

(* untainted_same: a partial-data fault changes nothing at the objects it does not name.  For the items selectItemsForPath
   yields (any data, path, taint set) and ANY answered response r0: merge r0, and merge r0 with the fault applied
   (fields nulled at positions [pf_nulls p], errors appended); if neither merge aborts the resolve, every merge target of
   a position the fault does not null holds the same value after both -- so a dependant renders the same representation for it
   as without the fault (a healthy duplicate, a neighbour of a skipped item are untouched) *)
Theorem c07_untainted_same :
  forall (f : fetch) (data : json) (path : list pathelem) (T : list rpath) (d' : json) (rq : request) (bl : list (list rpath))
         (r0 : response) (p : pfault) (s : lstate) (resp0 : json) (ents0 : list json),
    f_kind f = FBatch -> f_datapath f = [PName k_data; PName k_entities] ->
    prepare f data (filter_tainted T (select_items data path)) = PLoad d' rq (Some bl) ->
    rs_err r0 = false -> rs_body r0 = BJson resp0 -> valid_numbers resp0 = true ->
    get_loc [PName k_data; PName k_entities] resp0 = Some (JArr ents0) -> List.length bl = List.length ents0 ->
    (forall respP, rs_body (apply_partial p r0) = BJson respP -> valid_numbers respP = true) ->
    wrong_kind_batch f ents0 = false -> wrong_kind_batch f (null_fields (pf_nulls p) 0 ents0) = false ->   (* both lists pass mergeableData *)
    let items := filter_tainted T (select_items data path) in
    let sP := merge_result f (apply_partial p r0) items (Some bl) s in
    let s0 := merge_result f r0 items (Some bl) s in
    ls_hard sP = false -> ls_hard s0 = false ->
    forall k targets l, nth_error bl k = Some targets -> In l targets ->
      (forall fld, ~ In (N.of_nat k, fld) (pf_nulls p)) ->
      get_loc l (ls_data sP) = get_loc l (ls_data s0).
Proof. exact untainted_same_items. Qed.
Print Assumptions c07_untainted_same.

(* HISTORICAL (before commit 00d2cc7 in loader.go): a single EntityFetch never tainted anything -- its response data path
   selects data._entities.0 and the error path ["_entities",0,"zip"] was resolved against that entity -- so with the option on
   the dependant was still sent with the failed input as null.  [run_t_v0] is the run with that way of computing the indices;
   for the repaired loader the same plan and fault give: a tainted, two requests, a subset (Example p7_entity_fetch_taints). *)
Theorem c07_taint_single_entity_refuted :
  exists answer root_answer kind_of coords t P,
    forallb (fetch_wf kind_of) (fetches_of t) = true /\
    snd (run_t_v0 answer root_answer kind_of true coords no_faults P t) = [] /\
    requests_subset_b (ls_reqs (fst (run_t_v0 answer root_answer kind_of true coords no_faults no_partials t)))
                      (ls_reqs (fst (run_t_v0 answer root_answer kind_of true coords no_faults P t))) = false.
Proof. exact taint_single_entity_refuted_proof. Qed.
Print Assumptions c07_taint_single_entity_refuted.

(* non-vacuity (ProofsTaintExamples, plan 6: l = [null, A1, A1, A2]; f1's request is [A1, A2]; position 1 = A2 = list position 3):
   the hypotheses of c07_taint_exact / c07_untainted_same hold, the tainted index is 1, the tainted object is l[3] and
   l[1], l[2] -- the duplicates before the failing entity -- are merged as without the fault *)
Example c07_taint_hypotheses_satisfiable :
  let P := p6_partial proper_path in
  let s1 := fst (run_t p6_answer p6_root_answer p6_kind true p6_coords no_faults P (FTSingle p6_f0)) in
  let items := filter_tainted [] (select_items (ls_data s1) (f_path p6_f1)) in
  items = [l_at 0; l_at 1; l_at 2; l_at 3] /\
  (exists d' rq, prepare p6_f1 (ls_data s1) items = PLoad d' rq (Some [[l_at 1; l_at 2]; [l_at 3]]) /\ List.length (rq_reps rq) = 2%nat) /\
  (let r0 := fst (partial_exchange p6_answer p6_root_answer p6_kind no_faults no_partials tt
                    (mk_request p6_f1 (List.map fst (snd (batch_prepare (f_rep p6_f1) items (ls_data s1) []))))) in
   tainted_indices true (p6_coords 1) p6_f1 (apply_partial {| pf_nulls := [(1, bs "zip")]; pf_errors := [err_at proper_path] |} r0) = [1] /\
   ls_hard (merge_result p6_f1 (apply_partial {| pf_nulls := [(1, bs "zip")]; pf_errors := [err_at proper_path] |} r0) items (Some [[l_at 1; l_at 2]; [l_at 3]]) s1) = false /\
   ls_hard (merge_result p6_f1 r0 items (Some [[l_at 1; l_at 2]; [l_at 3]]) s1) = false) /\
  snd (p6_run true P) = [l_at 3].
Proof. vm_compute. repeat split. eexists. eexists. split; reflexivity. Qed.
