(* C07 property theorems: statements only; every proof is [exact lemma].

   Vocabulary (C07/Model.v, C07/Spec.v):
   [run answer root_answer kind_of F t]  the loader state after running fetch tree [t] against the
       pointwise deterministic subgraphs ([answer fetch representation], [root_answer fetch]) under
       the fault map [F : fetch id -> option fault] (a fetch sends at most one request per run);
   [no_faults]                            the empty fault map;
   [finish root s]                        the response: loader errors, then the C02 renderer on the data;
   [fplan_wf]                              what planner + post-processor guarantee: post-processing paths by
       fetch kind, single fetches at the root, flat non-null representation variables under an
       `on type` condition, no type-conditioned path elements, dependencies earlier in the tree;
   [consistent]                           the fault-free run never overwrites: after each fetch the old data is
       contained in the new, an entity fetch saw at most one item, every merged answer is contained
       at its target (evaluated on every generated case by the driver: coverage "consistent");
   [loud]                                 the failure kinds of the property text (transport error, non-2xx with empty /
       non-JSON / errors-only body, empty body, non-JSON, truncated, `NaN`, errors without data,
       `data: null`), and the `_entities` count faults for batch fetches;
   [sub_b a b]                            a equals b except for absent object members and nulls;
   [roots_are_objects]                    the data member of a root answer is an object;
   [run_v0]                               the same run with the loader's mergeResult BEFORE the three repairs
       (work/c07_fix_*.patch; ModelPreFix.v): the `_refuted` theorems are historical, about that function. *)
From Gv Require Import lib.Bytes lib.Json C02.Model C02.Spec C07.Model C07.ModelPreFix C07.Spec
     C07.ProofsErrors C07.ProofsMono C07.ProofsJson C07.ProofsUnaff C07.ProofsSkip C07.ProofsExamples.
From Coq Require Import String.
Open Scope N_scope.
Open Scope string_scope.

(* monotone: under any set of loud faults the merged data is the fault-free data with subtrees
   absent or null -- for every well-formed plan, pointwise subgraphs and fault map *)
Theorem c07_monotone :
  forall (answer : N -> bytes -> json * list json) (root_answer : N -> json * list json) (kind_of : N -> fkind)
         (F : N -> option fault) (t : ftree),
    (forall id k, F id = Some k -> loud (kind_of id) k = true) -> roots_are_objects root_answer ->
    fplan_wf kind_of t = true -> consistent answer root_answer kind_of t = true ->
    sub_b (ls_data (run answer root_answer kind_of F t)) (ls_data (run answer root_answer kind_of no_faults t)) = true.
Proof. exact monotone_proof. Qed.
Print Assumptions c07_monotone.

(* no corruption: every scalar present in the data under the faults is the fault-free scalar at
   that location *)
Theorem c07_unaffected_identical :
  forall (answer : N -> bytes -> json * list json) (root_answer : N -> json * list json) (kind_of : N -> fkind)
         (F : N -> option fault) (t : ftree),
    (forall id k, F id = Some k -> loud (kind_of id) k = true) -> roots_are_objects root_answer ->
    fplan_wf kind_of t = true -> consistent answer root_answer kind_of t = true ->
    forall l v, get_loc l (ls_data (run answer root_answer kind_of F t)) = Some v -> is_atom v = true ->
    get_loc l (ls_data (run answer root_answer kind_of no_faults t)) = Some v.
Proof. exact no_corruption_proof. Qed.
Print Assumptions c07_unaffected_identical.

(* unaffected_equal: let A contain the faulted fetches and be closed under dependants ([closed_in]:
   whoever depends on a member is a member).  Knocking out ALL of A (a transport error for every
   member, so that nothing of A contributes and nothing outside A is touched) loses nothing that the
   faulty run keeps: the data of that run is contained in the data of the faulty run -- which is
   contained in the fault-free data (c07_monotone), where every scalar is the fault-free scalar
   (c07_unaffected_identical).  So what the fetches outside A produce is all present, unchanged.
   Needs subgraph answers without duplicate object keys ([json_wf]) and with RFC 8259 number tokens
   ([answers_valid]), and a faulty run that does not
   fail as a whole (see c07_response_merge_order_refuted for how it can). *)
Theorem c07_unaffected_equal :
  forall (answer : N -> bytes -> json * list json) (root_answer : N -> json * list json) (kind_of : N -> fkind)
         (F : N -> option fault) (A : N -> bool) (t : ftree),
    (forall id k, F id = Some k -> loud (kind_of id) k = true) ->
    (forall id rep, json_wf (fst (answer id rep)) = true) -> (forall id, json_wf (fst (root_answer id)) = true) ->
    roots_are_objects root_answer -> answers_valid answer root_answer ->
    (forall id k, F id = Some k -> A id = true) -> closed_in A t ->
    fplan_wf kind_of t = true -> consistent answer root_answer kind_of t = true ->
    ls_hard (run answer root_answer kind_of F t) = false ->
    sub_b (ls_data (run answer root_answer kind_of (knock A) t)) (ls_data (run answer root_answer kind_of F t)) = true.
Proof. exact unaffected_lower_proof'. Qed.
Print Assumptions c07_unaffected_equal.

(* HISTORICAL: requests_subset was false of the loader before the repair: a nullable @requires field
   whose provider failed (any non-transport failure) was sent as null to the dependent subgraph *)
Theorem c07_requests_subset_refuted :
  exists answer root_answer kind_of t F,
    forallb (fetch_wf kind_of) (fetches_of t) = true /\
    (forall id k, F id = Some k -> loud (kind_of id) k = true) /\
    requests_subset_b (ls_reqs (run_v0 answer root_answer kind_of no_faults t)) (ls_reqs (run_v0 answer root_answer kind_of F t)) = false.
Proof. exact requests_subset_refuted_proof. Qed.
Print Assumptions c07_requests_subset_refuted.

(* requests_subset: every request sent under the faults is covered by a fault-free request of the same
   fetch (same datasource and operation text, representations a subset) *)
Theorem c07_requests_subset :
  forall (answer : N -> bytes -> json * list json) (root_answer : N -> json * list json) (kind_of : N -> fkind)
         (F : N -> option fault) (t : ftree),
    (forall id k, F id = Some k -> loud (kind_of id) k = true) -> roots_are_objects root_answer ->
    fplan_wf kind_of t = true -> consistent answer root_answer kind_of t = true ->
    requests_subset_b (ls_reqs (run answer root_answer kind_of no_faults t)) (ls_reqs (run answer root_answer kind_of F t)) = true.
Proof. exact requests_subset_proof. Qed.
Print Assumptions c07_requests_subset.

(* requests_subset above is about plans whose representation inputs are non-null ([fplan_wf]): there a
   dependant whose input is missing does not render and the erroredFetchIDs bookkeeping is not needed.
   With NULLABLE @requires inputs the representation renders with null, and only the bookkeeping keeps the
   dependant from being sent.  The next two theorems are about that bookkeeping, for any representations,
   any answers and any fetch tree whose dependencies come earlier ([deps_before]):
   (1) every fetch whose request was hit by a failure kind of the property is recorded as errored
       (after the repair: every kind, not only the transport error);
   (2) the skip is TRANSITIVE although DependsOnFetchIDs lists direct dependencies only, because a
       skipped fetch is recorded itself: a fetch that depends through any number of fetches
       ([dep_reach]) on a fetch whose request failed is recorded and sends no request.
   [ls_hard s = false]: the resolve did not abort (an aborted resolve writes no response). *)
Theorem c07_failed_recorded :
  forall (answer : N -> bytes -> json * list json) (root_answer : N -> json * list json) (kind_of : N -> fkind)
         (F : N -> option fault) (t : ftree),
    (forall id k, F id = Some k -> loud (kind_of id) k = true) -> roots_are_objects root_answer ->
    forallb (fetch_wf kind_of) (fetches_of t) = true ->
    forall rq, In rq (ls_reqs (run answer root_answer kind_of F t)) -> F (rq_fetch rq) <> None ->
    In (rq_fetch rq) (ls_errored (run answer root_answer kind_of F t)).
Proof. exact failed_recorded_thm. Qed.
Print Assumptions c07_failed_recorded.

Theorem c07_skip_transitive :
  forall (answer : N -> bytes -> json * list json) (root_answer : N -> json * list json) (kind_of : N -> fkind)
         (F : N -> option fault) (t : ftree),
    (forall id k, F id = Some k -> loud (kind_of id) k = true) -> roots_are_objects root_answer ->
    forallb (fetch_wf kind_of) (fetches_of t) = true -> deps_before t = true ->
    let s := run answer root_answer kind_of F t in
    ls_hard s = false ->
    forall rq0, In rq0 (ls_reqs s) -> F (rq_fetch rq0) <> None ->
    forall f, dep_reach (fetches_of t) (rq_fetch rq0) f ->
      In (f_id f) (ls_errored s) /\ forall rq, In rq (ls_reqs s) -> rq_fetch rq <> f_id f.
Proof. exact skip_transitive_thm. Qed.
Print Assumptions c07_skip_transitive.

(* non-vacuity: the four-fetch chain of plan 5 (f3 depends on f0 and on the skipped f2 only; nullable inputs);
   fault-free all four requests go out, under an empty body for f1 only f0 and f1, and the hypotheses of
   c07_skip_transitive hold for f3 *)
Example c07_skip_transitive_chain :
  let F := fault_at 1 FtEmpty in
  forallb (fetch_wf p5_kind) (fetches_of p5_tree) = true /\ deps_before p5_tree = true /\
  List.map rq_fetch (ls_reqs (p5_run no_faults)) = [0; 1; 2; 3] /\
  ls_hard (p5_run F) = false /\
  (exists rq0, In rq0 (ls_reqs (p5_run F)) /\ F (rq_fetch rq0) <> None /\ dep_reach (fetches_of p5_tree) (rq_fetch rq0) p5_f3 /\
               ~ In (rq_fetch rq0) (f_deps p5_f3)) /\
  List.map rq_fetch (ls_reqs (p5_run F)) = [0; 1].
Proof.
  cbv zeta. split; [vm_compute; reflexivity|]. split; [vm_compute; reflexivity|]. split; [vm_compute; reflexivity|].
  split; [vm_compute; reflexivity|]. split; [|vm_compute; reflexivity].
  eexists. split; [right; left; reflexivity|]. split; [vm_compute; discriminate|]. split.
  - apply DR_step with (h := p5_f2).
    + apply DR_direct; [right; right; left; reflexivity|right; left; reflexivity].
    + right; right; right; left; reflexivity.
    + right; left; reflexivity.
  - vm_compute. intros [H|[H|[]]]; discriminate.
Qed.

(* HISTORICAL: before the repair a single-entity fetch answered with `_entities: []` ("wrong entity
   count") was taken for "entity not found" and nothing was reported *)
Theorem c07_errors_nonempty_refuted :
  exists answer root_answer kind_of t root F,
    forallb (fetch_wf kind_of) (fetches_of t) = true /\ root_wf root = true /\
    (exists rq, In rq (ls_reqs (run_v0 answer root_answer kind_of no_faults t)) /\ F (rq_fetch rq) = Some FtCountLess) /\
    let o := finish root (run_v0 answer root_answer kind_of F t) in
    o_failed o = false /\ o_lerrors o = [] /\ r_errors (o_resolved o) = [].
Proof. exact errors_nonempty_refuted_proof. Qed.
Print Assumptions c07_errors_nonempty_refuted.

(* errors_nonempty, for the whole list of failure kinds of the property ([loud]): if some request of the
   fault-free run is faulted, the response carries at least one (loader) error *)
Theorem c07_errors_nonempty :
  forall (answer : N -> bytes -> json * list json) (root_answer : N -> json * list json) (kind_of : N -> fkind)
         (F : N -> option fault) (t : ftree),
    (forall id k, F id = Some k -> loud (kind_of id) k = true) -> roots_are_objects root_answer ->
    forallb (fetch_wf kind_of) (fetches_of t) = true ->
    (exists rq, In rq (ls_reqs (run answer root_answer kind_of no_faults t)) /\ F (rq_fetch rq) <> None) ->
    ls_errors (run answer root_answer kind_of F t) <> [].
Proof. exact errors_nonempty_proof. Qed.
Print Assumptions c07_errors_nonempty.

(* valid_json (corollary of C02.resolve_refines_complete): whatever the loader state, the data member
   of the response is the marshalling of the C02 completion of the merged data (or `null`), the
   renderer neither panics nor reports a print error *)
Theorem c07_valid_json :
  forall (root : node) (s : lstate),
    root_wf root = true ->
    let o := finish root s in
    r_data (o_resolved o) = data_bytes (fst (complete_root no_deny root (ls_data s))) /\
    r_panic (o_resolved o) = false /\ r_render_err (o_resolved o) = false.
Proof. exact valid_json_proof. Qed.
Print Assumptions c07_valid_json.

(* HISTORICAL: a marshalled tree is RFC 8259 text only if its number tokens are; before the repair a subgraph
   body with `NaN` (which astjson parses as a number) was rendered verbatim.  (parsedResponse now rejects it.) *)
Theorem c07_valid_json_refuted :
  exists root_answer t root F,
    root_wf root = true /\
    let o := finish root (run_v0 (fun _ _ => (JNull, [])) root_answer (fun _ => FSingle) F t) in
    o_failed o = false /\ o_lerrors o = [] /\ r_errors (o_resolved o) = [] /\
    r_data (o_resolved o) = [123; 34; 100; 34; 58; 78; 97; 78; 125].
Proof. exact valid_json_refuted_proof. Qed.
Print Assumptions c07_valid_json_refuted.

(* "still returns one well-formed response" is false of the loader even without an injected fault:
   two independent entity fetches at the same object select the same object field, one subgraph
   answers it with null (and an error), the other with an object; MergeValues(null, object) is
   ErrMergeDifferentTypes, so if the null is merged first the request fails as a whole (nothing is
   written), in the other order it succeeds -- inside a Parallel group the order is the schedule's.
   Replayed on the Go code: harness/bin/c07 probe-null-object. *)
Theorem c07_response_merge_order_refuted :
  exists answer root_answer kind_of t1 t2 root,
    root_wf root = true /\
    fetches_of t1 = [p4_f0; p4_f1; p4_f2] /\ fetches_of t2 = [p4_f0; p4_f2; p4_f1] /\
    o_failed (finish root (run answer root_answer kind_of no_faults t1)) = true /\
    let o := finish root (run answer root_answer kind_of no_faults t2) in
    o_failed o = false /\ List.map le_kind (o_lerrors o) = [LE_FETCH] /\
    r_data (o_resolved o) = bs "{""a"":{""p"":{""x"":null,""y"":""why""}}}".
Proof. exact merge_order_refuted_proof. Qed.
Print Assumptions c07_response_merge_order_refuted.

(* ---- non-vacuity: plan 1 of ProofsExamples (root fetch, entity fetch, de-duplicating batch fetch
   in a Sequence/Parallel tree) satisfies every hypothesis, with a loud fault that changes the data ---- *)
Example c07_unaffected_hypotheses_satisfiable :
  let A := fun id => N.eqb id 2 in
  closed_in A p1_tree /\ (forall id rep, json_wf (fst (p1_answer id rep)) = true) /\ (forall id, json_wf (fst (p1_root_answer id)) = true) /\
  roots_are_objects p1_root_answer /\ answers_valid p1_answer p1_root_answer /\
  ls_hard (p1_run (fault_at 2 FtNullData)) = false /\
  ls_data (p1_run (knock A)) = ls_data (p1_run (fault_at 2 FtNullData)) /\ ls_data (p1_run (knock A)) <> ls_data (p1_run no_faults).
Proof.
  cbv zeta. split.
  - intros f Hf d Hd Ha. simpl in Hf. destruct Hf as [<-|[<-|[<-|[]]]]; simpl in Hd; try contradiction; destruct Hd as [<-|[]]; discriminate.
  - split; [intros id rep; unfold p1_answer; destruct id as [|[| |]]; reflexivity|]. split; [intros id; reflexivity|].
    split; [intros id; eexists; reflexivity|].
    split; [split; [intros id rep; unfold p1_answer; destruct id as [|[| |]]; split; reflexivity|intros id; split; reflexivity]|].
    vm_compute. repeat split. discriminate.
Qed.

Example c07_hypotheses_satisfiable :
  fplan_wf p1_kind p1_tree = true /\ consistent p1_answer p1_root_answer p1_kind p1_tree = true /\
  loud (p1_kind 2) FtTransport = true /\
  ls_data (p1_run (fault_at 2 FtTransport)) <> ls_data (p1_run no_faults).
Proof. vm_compute. repeat split. discriminate. Qed.
