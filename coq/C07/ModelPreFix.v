(* C07: the loader's mergeResult BEFORE the three repairs (work/c07_fix_*.patch): only a transport error
   records the fetch as errored, a single-entity fetch ignores the `_entities` count, every token
   astjson takes for a number (NaN, ...) is accepted.  Kept for the historical refutations
   (c07_*_refuted): the witnesses that motivated the repairs.  Everything else is C07/Model.v. *)
From Gv Require Import lib.Bytes lib.Json C02.Model C07.Model.
Open Scope N_scope.

Definition merge_result_v0 (f : fetch) (res : response) (items : list rpath) (batch : option (list (list rpath)))
           (s : lstate) : lstate :=
  if rs_err res then add_error s LE_FETCH f else
  match rs_body res with
  | BEmpty => add_error s LE_EMPTY f
  | BInvalid => if non2xx (rs_status res) then add_error s LE_STATUS f else add_error s LE_INVALID f
  | BJson resp =>
    let rdata := get_loc (f_datapath f) resp in
    let has_errors := match get_loc [PName k_errors] resp with
                      | Some (JArr (_ :: _)) => true
                      | _ => false
                      end in
    let s := if has_errors then add_error s LE_FETCH f else s in      (* mergeErrors, wrapped mode *)
    if is_nullish rdata then
      if is_entity_kind (f_kind f) &&
         match get_loc [PName k_data; PName k_entities] resp with Some (JArr _) => true | _ => false end
      then s                                                          (* isEmptyEntityFetch: silent *)
      else if negb has_errors && non2xx (rs_status res) then add_error s LE_STATUS f
      else if negb has_errors then add_error s LE_SHAPE f
      else s
    else
      match rdata with
      | None => s
      | Some rd =>
        match items, batch with
        | [], _ => match rd with
                   | JObj _ => set_data s rd                          (* dataBuffer.Set(responseData) *)
                   | _ => add_error s LE_SHAPE f
                   end
        | [l], None => merge_target f s l rd
        | _, _ =>
          match rd with
          | JArr [] => add_error s LE_SHAPE f                         (* GetArray() of an empty array is nil *)
          | JArr b =>
            match batch with
            | Some bs => if Nat.eqb (length bs) (length b) then merge_buckets f s bs b else add_error s LE_COUNT f
            | None => if Nat.eqb (length items) (length b) then merge_pairwise f s items b else add_error s LE_COUNT f
            end
          | _ => add_error s LE_SHAPE f
          end
        end
      end
  end.

Section LoaderV0.
  Variable St : Type.
  Variable exchange : St -> request -> response * St.

  (* resolveSingle = preparePhase / loadPhase / mergePhase *)
  Definition run_fetch_v0 (f : fetch) (sx : lstate * St) : lstate * St :=
    let '(s, x) := sx in
    if should_skip f s then (add_errored s (f_id f), x) else
    let items := select_items (ls_data s) (f_path f) in
    match prepare f (ls_data s) items with
    | PSkip d => (set_data s d, x)
    | PLoad d rq batch =>
      let s := add_request (set_data s d) rq in
      let '(res, x') := exchange x rq in
      let s := if rs_err res then add_errored s (f_id f) else s in
      (merge_result_v0 f res items batch s, x')
    end.

  Fixpoint run_tree_v0 (t : ftree) (sx : lstate * St) : lstate * St :=
    match t with
    | FTSingle f => run_fetch_v0 f sx
    | FTSeq l =>
      (fix go (l : list ftree) (sx : lstate * St) : lstate * St :=
         match l with
         | [] => sx
         | t :: r => let sx' := run_tree_v0 t sx in if ls_hard (fst sx') then sx' else go r sx'
         end) l sx
    | FTPar l =>
      (fix go (l : list ftree) (sx : lstate * St) : lstate * St :=
         match l with
         | [] => sx
         | t :: r => go r (run_tree_v0 t sx)
         end) l sx
    end.

  Definition load_v0 (t : ftree) (x : St) : lstate * St := run_tree_v0 t (init_state, x).
End LoaderV0.

Definition run_v0 (answer : N -> bytes -> json * list json) (root_answer : N -> json * list json) (kind_of : N -> fkind)
           (F : N -> option fault) (t : ftree) : lstate :=
  fst (load_v0 unit (faulty_exchange answer root_answer kind_of F) t tt).
