(* The skip is transitive: shouldSkipErroredDependencyLocked records the fetch it skips in
   erroredFetchIDs itself, so the dependants of a skipped fetch are skipped too, although
   DependsOnFetchIDs lists direct dependencies only.  Nothing here depends on the shape of the
   representations (nullable @requires inputs included) nor on what the subgraphs answer. *)
From Gv Require Import lib.Bytes lib.Json C02.Model C07.Model C07.Spec C07.ProofsBase C07.ProofsErrors C07.ProofsMono C07.ProofsUnaff.
From Coq Require Import Lia.
Open Scope N_scope.

Lemma mem_n_In : forall x l, mem_n x l = true <-> In x l.
Proof.
  intros x l. unfold mem_n. rewrite existsb_exists. split.
  - intros (y & Hy & E). apply N.eqb_eq in E. subst. exact Hy.
  - intros H. exists x. split; [exact H|apply N.eqb_refl].
Qed.

(* the execution order: every fetch's dependencies come earlier, ids are unique *)
Definition ordered (L : list fetch) : Prop :=
  forall A g B, L = A ++ g :: B ->
    (forall d, In d (f_deps g) -> In d (map f_id A)) /\ ~ In (f_id g) (map f_id A).

Lemma deps_before_go : forall fs seen,
  (fix go (fs : list fetch) (seen : list N) : bool :=
     match fs with
     | [] => true
     | f :: r => forallb (fun d => mem_n d seen) (f_deps f) && negb (mem_n (f_id f) seen) && go r (f_id f :: seen)
     end) fs seen = true ->
  forall A g B, fs = A ++ g :: B ->
    (forall d, In d (f_deps g) -> In d (map f_id A) \/ In d seen) /\ ~ In (f_id g) (map f_id A) /\ ~ In (f_id g) seen.
Proof.
  induction fs as [|f r IH]; intros seen H A g B E.
  - destruct A; discriminate.
  - apply andb_prop in H as [H H3]. apply andb_prop in H as [H1 H2].
    destruct A as [|a A]; simpl in E; inversion E; subst.
    + split; [|split].
      * intros d Hd. right. rewrite forallb_forall in H1. apply mem_n_In. apply H1. exact Hd.
      * intros [].
      * intros Hin. apply mem_n_In in Hin. rewrite Hin in H2. discriminate.
    + destruct (IH _ H3 A g B eq_refl) as (Ha & Hb & Hc). split; [|split].
      * intros d Hd. destruct (Ha d Hd) as [K|[K|K]]; [left; right; exact K|left; left; exact K|right; exact K].
      * intros [K|K]; [apply Hc; left; exact K|apply Hb; exact K].
      * intros K. apply Hc. right. exact K.
Qed.

Lemma deps_before_ordered : forall t, deps_before t = true -> ordered (fetches_of t).
Proof.
  intros t H A g B E. destruct (deps_before_go _ _ H A g B E) as (Ha & Hb & _). split; [|exact Hb].
  intros d Hd. destruct (Ha d Hd) as [K|[]]. exact K.
Qed.

Lemma merge_result_errored_mono : forall f res items batch s id,
  In id (ls_errored s) -> In id (ls_errored (merge_result f res items batch s)).
Proof.
  intros f res items batch s id H. mr_cases;
    rewrite ?merge_target_errored, ?merge_pairwise_errored, ?merge_buckets_errored;
    cbn [ls_errored fail add_error add_errored set_data In]; auto.
Qed.

Section Skip.
  Variable St : Type.
  Variable e : St -> request -> response * St.

  Definition step (sx : lstate * St) (f : fetch) : lstate * St := run_fetch St e f sx.

  (* without a hard failure the tree is the fold over its fetches in order *)
  Lemma run_tree_flat : forall t sx, ls_hard (fst (run_tree St e t sx)) = false ->
    run_tree St e t sx = fold_left step (fetches_of t) sx.
  Proof.
    fix IH 1. intros t; destruct t as [f|l|l]; intros sx H.
    - reflexivity.
    - simpl in *. revert sx H. induction l as [|t r IHl]; intros sx H; [reflexivity|].
      rewrite fold_left_app.
      destruct (ls_hard (fst (run_tree St e t sx))) eqn:Hh.
      + rewrite Hh in H. discriminate.
      + rewrite <- (IH t sx Hh). apply IHl. exact H.
    - simpl in *. revert sx H. induction l as [|t r IHl]; intros sx H; [reflexivity|].
      rewrite fold_left_app.
      assert (Hh : ls_hard (fst (run_tree St e t sx)) = false).
      { destruct (ls_hard (fst (run_tree St e t sx))) eqn:Hh; [|reflexivity].
        destruct (run_tree St e t sx) as [s1 x1] eqn:R. cbn [fst] in Hh.
        pose proof (run_tree_hard St e (FTPar r) s1 x1 Hh) as K. simpl in K. rewrite K in H. discriminate. }
      rewrite <- (IH t sx Hh). apply IHl. exact H.
  Qed.

  Lemma run_fetch_errored_mono : forall f s x id, In id (ls_errored s) -> In id (ls_errored (fst (run_fetch St e f (s, x)))).
  Proof.
    intros f s x id H. unfold run_fetch. destruct (should_skip f s); [right; exact H|].
    destruct (prepare f (ls_data s) (select_items (ls_data s) (f_path f))) as [d|d rq b]; [exact H|].
    destruct (e x rq) as [res x']. cbn [fst]. apply merge_result_errored_mono.
    destruct (rs_err res); cbn [ls_errored add_errored add_request set_data]; [right; exact H|exact H].
  Qed.

  Lemma run_fetch_reqs : forall f s x rq, In rq (ls_reqs (fst (run_fetch St e f (s, x)))) ->
    In rq (ls_reqs s) \/ (rq_fetch rq = f_id f /\ should_skip f s = false).
  Proof.
    intros f s x rq H. unfold run_fetch in H. destruct (should_skip f s); [left; exact H|].
    destruct (prepare f (ls_data s) (select_items (ls_data s) (f_path f))) as [d|d rq0 b] eqn:P; [left; exact H|].
    destruct (e x rq0) as [res x']. cbn [fst] in H. rewrite merge_result_reqs in H.
    assert (H' : In rq (ls_reqs s ++ [rq0])) by (destruct (rs_err res); exact H).
    apply in_app_or in H' as [H'|[<-|[]]]; [left; exact H'|right].
    split; [exact (proj1 (prepare_request _ _ _ _ _ _ P))|reflexivity].
  Qed.

  Lemma should_skip_true : forall f s, should_skip f s = true <-> exists d, In d (f_deps f) /\ In d (ls_errored s).
  Proof.
    intros f s. unfold should_skip. rewrite existsb_exists. split.
    - intros (d & Hd & Hx). exists d. split; [exact Hd|]. apply (mem_n_In d). exact Hx.
    - intros (d & Hd & Hx). exists d. split; [exact Hd|]. apply (mem_n_In d). exact Hx.
  Qed.

  (* the invariant after the fetches [A] have run *)
  Record SInv (A : list fetch) (s : lstate) : Prop := {
    SI_err : forall id, In id (ls_errored s) -> In id (map f_id A);
    SI_req : forall rq, In rq (ls_reqs s) -> In (rq_fetch rq) (map f_id A);
    SI_skip : forall f, In f A -> (exists d, In d (f_deps f) /\ In d (ls_errored s)) ->
              In (f_id f) (ls_errored s) /\ forall rq, In rq (ls_reqs s) -> rq_fetch rq <> f_id f }.

  Lemma step_inv : forall A g s x,
    (forall f, In f A -> forall d, In d (f_deps f) -> In d (map f_id A)) ->
    (forall d, In d (f_deps g) -> In d (map f_id A)) -> ~ In (f_id g) (map f_id A) ->
    SInv A s -> SInv (A ++ [g]) (fst (run_fetch St e g (s, x))).
  Proof.
    intros A g s x HA Hg Hn [He Hr Hs]. constructor.
    - intros id H. rewrite map_app. apply in_or_app.
      destruct (run_fetch_errored_incl St e g s x id H) as [K|K]; [left; apply He; exact K|right; left; symmetry; exact K].
    - intros rq H. rewrite map_app. apply in_or_app.
      destruct (run_fetch_reqs g s x rq H) as [K|[K _]]; [left; apply Hr; exact K|right; left; symmetry; exact K].
    - intros f Hf (d & Hd & Hx). apply in_app_or in Hf as [Hf|[->|[]]].
      + (* an earlier fetch: [g] is none of its dependencies *)
        assert (Hold : In d (ls_errored s)).
        { destruct (run_fetch_errored_incl St e g s x d Hx) as [K|K]; [exact K|].
          exfalso. apply Hn. rewrite <- K. apply (HA f Hf d Hd). }
        destruct (Hs f Hf (ex_intro _ d (conj Hd Hold))) as [H1 H2]. split.
        * apply run_fetch_errored_mono. exact H1.
        * intros rq Hin. destruct (run_fetch_reqs g s x rq Hin) as [K|[K _]]; [apply H2; exact K|].
          rewrite K. intros E. apply Hn. rewrite E. apply in_map. exact Hf.
      + (* the fetch just run *)
        assert (Hold : In d (ls_errored s)).
        { destruct (run_fetch_errored_incl St e f s x d Hx) as [K|K]; [exact K|].
          exfalso. apply Hn. rewrite <- K. apply Hg. exact Hd. }
        assert (SK : should_skip f s = true) by (apply should_skip_true; exists d; split; assumption).
        unfold run_fetch. rewrite SK. cbn [fst ls_errored ls_reqs add_errored]. split; [left; reflexivity|].
        intros rq Hin E. apply Hn. rewrite <- E. apply Hr. exact Hin.
  Qed.

  Lemma fold_inv : forall B A s x, ordered (A ++ B) -> SInv A s ->
    SInv (A ++ B) (fst (fold_left step B (s, x))).
  Proof.
    induction B as [|g B IH]; intros A s x Ho HI.
    - rewrite app_nil_r. exact HI.
    - cbn [fold_left]. change (step (s, x) g) with (run_fetch St e g (s, x)). destruct (run_fetch St e g (s, x)) as [s1 x1] eqn:R.
      replace (A ++ g :: B) with ((A ++ [g]) ++ B) by (rewrite <- app_assoc; reflexivity).
      apply IH; [rewrite <- app_assoc; exact Ho|].
      replace s1 with (fst (run_fetch St e g (s, x))) by (rewrite R; reflexivity).
      apply step_inv; [| |  |exact HI].
      + intros f Hf d Hd. apply in_split in Hf as (A1 & A2 & ->).
        destruct (Ho A1 f (A2 ++ g :: B)) as [K _]; [rewrite <- app_assoc; reflexivity|].
        rewrite map_app. apply in_or_app. left. apply K. exact Hd.
      + exact (proj1 (Ho A g B eq_refl)).
      + exact (proj2 (Ho A g B eq_refl)).
  Qed.

  (* [f] depends, directly or through other fetches, on the fetch with id [src] *)
  Inductive dep_reach (L : list fetch) (src : N) : fetch -> Prop :=
  | DR_direct : forall f, In f L -> In src (f_deps f) -> dep_reach L src f
  | DR_step : forall h f, dep_reach L src h -> In f L -> In (f_id h) (f_deps f) -> dep_reach L src f.

  Lemma skip_transitive_gen : forall t x, deps_before t = true ->
    let s := fst (run_tree St e t (init_state, x)) in
    ls_hard s = false ->
    forall src, In src (ls_errored s) ->
    forall f, dep_reach (fetches_of t) src f ->
      In (f_id f) (ls_errored s) /\ forall rq, In rq (ls_reqs s) -> rq_fetch rq <> f_id f.
  Proof.
    intros t x Hd. cbv zeta. intros Hh src Hsrc f Hr.
    rewrite (run_tree_flat t _ Hh) in *.
    assert (HI : SInv (fetches_of t) (fst (fold_left step (fetches_of t) (init_state, x)))).
    { apply (fold_inv (fetches_of t) [] init_state x (deps_before_ordered t Hd)).
      constructor; simpl; intros; contradiction. }
    destruct HI as [_ _ Hs]. induction Hr as [f Hf Hin|h f Hr IH Hf Hin].
    - apply Hs; [exact Hf|]. exists src. split; assumption.
    - apply Hs; [exact Hf|]. exists (f_id h). split; [exact Hin|exact (proj1 IH)].
  Qed.
End Skip.

(* every loud fault on a request that was sent records the fetch as errored (after the repair:
   every failure kind, not only the transport error) *)
Section Recorded.
  Variable answer : N -> bytes -> json * list json.
  Variable root_answer : N -> json * list json.
  Variable kind_of : N -> fkind.
  Variable F : N -> option fault.
  Hypothesis Hloud : forall id k, F id = Some k -> loud (kind_of id) k = true.
  Hypothesis Hrobj : roots_are_objects root_answer.

  Let eF := faulty_exchange answer root_answer kind_of F.

  Definition RecInv (s : lstate) : Prop :=
    forall rq, In rq (ls_reqs s) -> F (rq_fetch rq) <> None -> In (rq_fetch rq) (ls_errored s).

  Lemma fetch_recorded : forall f s, fetch_wfF kind_of F f = true -> RecInv s -> RecInv (fst (run_fetch unit eF f (s, tt))).
  Proof.
    intros f s Hwf HI rq Hin HF. destruct (fetch_wfF_inv _ _ _ Hwf) as (Hk & Hd & Hmpk).
    assert (Hold : In rq (ls_reqs s) -> In (rq_fetch rq) (ls_errored (fst (run_fetch unit eF f (s, tt))))).
    { intros K. apply run_fetch_errored_mono. apply HI; assumption. }
    unfold run_fetch in *.
    destruct (should_skip f s); [apply Hold; exact Hin|].
    destruct (prepare f (ls_data s) (select_items (ls_data s) (f_path f))) as [d|d rq0 b] eqn:P; [apply Hold; exact Hin|].
    destruct (prepare_request _ _ _ _ _ _ P) as (Hrq & _).
    unfold eF, faulty_exchange in *. rewrite Hrq, Hk in *.
    destruct (F (f_id f)) as [k|] eqn:EF; cbn [fst] in *.
    - rewrite merge_result_reqs in Hin.
      match type of Hin with In _ (ls_reqs (if ?c then _ else _)) => assert (Hin' : In rq (ls_reqs s ++ [rq0])) by (destruct c; exact Hin) end.
      apply in_app_or in Hin' as [K|[<-|[]]]; [apply Hold; exact K|]. rewrite Hrq.
      specialize (Hloud _ _ EF). rewrite Hk in Hloud.
      match goal with |- In _ (ls_errored (merge_result f ?res ?items ?batch ?s0)) =>
        exact (proj2 (proj2 (loud_outcome answer root_answer f k _ _ _ _ items s0 Hrobj Hd Hloud ltac:(first [exact (Hmpk _ EF) | exact (Hmpk _ eq_refl)]) P))) end.
    - rewrite merge_result_reqs in Hin.
      match type of Hin with In _ (ls_reqs (if ?c then _ else _)) => assert (Hin' : In rq (ls_reqs s ++ [rq0])) by (destruct c; exact Hin) end.
      apply in_app_or in Hin' as [K|[<-|[]]]; [apply Hold; exact K|]. rewrite Hrq in HF. congruence.
  Qed.

  Lemma tree_recorded : forall t s, forallb (fetch_wfF kind_of F) (fetches_of t) = true -> RecInv s ->
    RecInv (fst (run_tree unit eF t (s, tt))).
  Proof.
    fix IH 1. intros t; destruct t as [f|l|l]; intros s Hwf HI.
    - simpl in Hwf. rewrite andb_true_r in Hwf. apply fetch_recorded; assumption.
    - simpl. simpl in Hwf. revert s HI Hwf. induction l as [|t r IHl]; intros s HI Hwf; [exact HI|].
      rewrite forallb_app in Hwf. apply andb_prop in Hwf as [Hw1 Hw2].
      pose proof (IH t s Hw1 HI) as H1. destruct (run_tree unit eF t (s, tt)) as [s1 []] eqn:R1. cbn [fst] in *.
      destruct (ls_hard s1); [exact H1|]. apply IHl; assumption.
    - simpl. simpl in Hwf. revert s HI Hwf. induction l as [|t r IHl]; intros s HI Hwf; [exact HI|].
      rewrite forallb_app in Hwf. apply andb_prop in Hwf as [Hw1 Hw2].
      pose proof (IH t s Hw1 HI) as H1. destruct (run_tree unit eF t (s, tt)) as [s1 []] eqn:R1. cbn [fst] in *.
      apply IHl; assumption.
  Qed.

  Theorem failed_recorded_proof : forall t, forallb (fetch_wfF kind_of F) (fetches_of t) = true ->
    forall rq, In rq (ls_reqs (run answer root_answer kind_of F t)) -> F (rq_fetch rq) <> None ->
    In (rq_fetch rq) (ls_errored (run answer root_answer kind_of F t)).
  Proof.
    intros t Hwf. unfold run, load. apply tree_recorded; [exact Hwf|]. intros rq [].
  Qed.

  (* the transitive skip, from the fault: a fetch that depends, through any number of fetches, on a
     fetch whose request was faulted sends nothing *)
  Theorem skip_transitive_proof : forall t, forallb (fetch_wfF kind_of F) (fetches_of t) = true -> deps_before t = true ->
    let s := run answer root_answer kind_of F t in
    ls_hard s = false ->
    forall rq0, In rq0 (ls_reqs s) -> F (rq_fetch rq0) <> None ->
    forall f, dep_reach (fetches_of t) (rq_fetch rq0) f ->
      In (f_id f) (ls_errored s) /\ forall rq, In rq (ls_reqs s) -> rq_fetch rq <> f_id f.
  Proof.
    intros t Hwf Hd. cbv zeta. intros Hh rq0 Hin HF f Hr.
    pose proof (failed_recorded_proof t Hwf rq0 Hin HF) as Hsrc.
    unfold run, load in *.
    exact (skip_transitive_gen unit eF t tt Hd Hh (rq_fetch rq0) Hsrc f Hr).
  Qed.
End Recorded.

Lemma failed_recorded_thm :
  forall (answer : N -> bytes -> json * list json) (root_answer : N -> json * list json) (kind_of : N -> fkind)
         (F : N -> option fault) (t : ftree),
    (forall id k, F id = Some k -> loud (kind_of id) k = true) -> roots_are_objects root_answer ->
    forallb (fetch_wf kind_of) (fetches_of t) = true -> forallb (fault_fits F) (fetches_of t) = true ->
    forall rq, In rq (ls_reqs (run answer root_answer kind_of F t)) -> F (rq_fetch rq) <> None ->
    In (rq_fetch rq) (ls_errored (run answer root_answer kind_of F t)).
Proof.
  intros answer root_answer kind_of F t Hl Hr Hw Hf.
  exact (failed_recorded_proof answer root_answer kind_of F Hl Hr t (fetch_wfF_join _ _ _ Hw Hf)).
Qed.

Lemma skip_transitive_thm :
  forall (answer : N -> bytes -> json * list json) (root_answer : N -> json * list json) (kind_of : N -> fkind)
         (F : N -> option fault) (t : ftree),
    (forall id k, F id = Some k -> loud (kind_of id) k = true) -> roots_are_objects root_answer ->
    forallb (fetch_wf kind_of) (fetches_of t) = true -> forallb (fault_fits F) (fetches_of t) = true -> deps_before t = true ->
    let s := run answer root_answer kind_of F t in
    ls_hard s = false ->
    forall rq0, In rq0 (ls_reqs s) -> F (rq_fetch rq0) <> None ->
    forall f, dep_reach (fetches_of t) (rq_fetch rq0) f ->
      In (f_id f) (ls_errored s) /\ forall rq, In rq (ls_reqs s) -> rq_fetch rq <> f_id f.
Proof.
  intros answer root_answer kind_of F t Hl Hr Hw Hf.
  exact (skip_transitive_proof answer root_answer kind_of F Hl Hr t (fetch_wfF_join _ _ _ Hw Hf)).
Qed.
