(* C06: the property theorems, assembled from ProofsValidator / ProofsCoerce / ProofsPipeline /
   ProofsOffender / ProofsEcho, the refutation witnesses (each one replayed on the Go code by
   corpus/C06/cases.txt) and satisfiability examples. *)
From Gv Require Import lib.Bytes lib.Json lib.Gql C06.Num C06.Model C06.Spec
     C06.ProofsBase C06.ProofsValidator C06.ProofsCoerce C06.ProofsPipeline C06.ProofsInject C06.ProofsOffender C06.ProofsEcho.
From Coq Require Import List NArith Bool Lia.
Import ListNotations.
Open Scope N_scope.

(* ------------------------------------------------------------------ concrete schemas for witnesses *)
Definition b_In : name := [73;110].
Definition b_x : name := [120].
Definition b_y : name := [121].
Definition b_k : name := [107].
Definition b_r : name := [114].
Definition b_d : name := [100].
Definition b_a : name := [97].
Definition b_q : name := [113].
Definition b_s : name := [115].
Definition b_ids : name := [105;100;115].
Definition b_E : name := [69].
Definition b_E0 : name := [69;48].
Definition b_A : name := [65].
Definition b_B : name := [66].
Definition b_secret : bytes := [115;101;99;114;101;116;75;101;121;49;50;51].   (* secretKey123 *)
Definition b_braces : bytes := [123;125].                                       (* {} *)
Definition num (s : bytes) : json := JNum s.
Definition t_1 : bytes := [49].
Definition t_1_5 : bytes := [49;46;53].
Definition t_1e100 : bytes := [49;101;49;48;48].
Definition t_3 : bytes := [51].

Definition mk_scalar (n : name) : type_def :=
  {| td_kind := KScalar; td_name := n; td_implements := []; td_fields := []; td_members := [];
     td_enum_values := []; td_input_fields := []; td_dirs := [] |}.
Definition mk_enum (n : name) (vs : list name) : type_def :=
  {| td_kind := KEnum; td_name := n; td_implements := []; td_fields := []; td_members := [];
     td_enum_values := map (fun v => {| ev_name := v; ev_dirs := [] |}) vs; td_input_fields := []; td_dirs := [] |}.
Definition mk_field (n : name) (t : ty) (d : option value) : inputvalue_def :=
  {| iv_name := n; iv_type := t; iv_default := d; iv_dirs := [] |}.
Definition mk_input (n : name) (fs : list inputvalue_def) : type_def :=
  {| td_kind := KInputObject; td_name := n; td_implements := []; td_fields := []; td_members := [];
     td_enum_values := []; td_input_fields := fs; td_dirs := [] |}.
Definition base_types : list type_def := map mk_scalar [n_Int; n_Float; n_String; n_Boolean; n_ID].
Definition mk_schema (ts : list type_def) : schema :=
  {| s_query := [81]; s_mutation := None; s_subscription := None; s_types := ts ++ base_types; s_directives := [] |}.
Definition mk_var (n : name) (t : ty) (d : option value) : vardef :=
  {| vd_name := n; vd_type := t; vd_default := d; vd_dirs := [] |}.
Definition no_reparse : bytes -> option json := fun _ => None.

(* ------------------------------------------------------------------ accept_iff_coercible: refuted, once per cause *)
(* The full statement  forall S reparse vds vars, accepts go_quirks S reparse vds vars = true <->
   coercible_all std S vds vars = true  is false of the faithful model.  The witnesses of the causes that
   have been repaired in /repo since are statements about [old_quirks], the code as it was; under
   [go_quirks] the same inputs are handled as the specification says (Examples [fixed_*] below). *)

(* input In { k: Int }   query($x: In)   {"x":{"k":1.5}} *)
Lemma refuted_int_proof :
  exists S vds vars, accepts old_quirks S no_reparse vds vars = true /\ coercible_all std S vds vars = false.
Proof.
  exists (mk_schema [mk_input b_In [mk_field b_k (TNamed n_Int) None]]),
         [mk_var b_x (TNamed b_In) None],
         (JObj [(b_x, JObj [(b_k, num t_1_5)])]).
  vm_compute. auto.
Qed.
(* query($x: Int!)   {"x":1e100} *)
Lemma refuted_int_1e100_proof :
  exists S vds vars, accepts old_quirks S no_reparse vds vars = true /\ coercible_all std S vds vars = false.
Proof.
  exists (mk_schema []), [mk_var b_x (TNonNull (TNamed n_Int)) None], (JObj [(b_x, num t_1e100)]).
  vm_compute. auto.
Qed.
(* query($x: ID)   {"x":1.5} *)
Lemma refuted_id_proof :
  exists S vds vars, accepts old_quirks S no_reparse vds vars = true /\ coercible_all std S vds vars = false.
Proof.
  exists (mk_schema []), [mk_var b_x (TNamed n_ID) None], (JObj [(b_x, num t_1_5)]).
  vm_compute. auto.
Qed.
(* scalar Upload   query($x: Upload!)   {"x":null} *)
Lemma refuted_upload_proof :
  exists S vds vars, accepts go_quirks S no_reparse vds vars = true /\ coercible_all std S vds vars = false.
Proof.
  exists (mk_schema [mk_scalar n_Upload]), [mk_var b_x (TNonNull (TNamed n_Upload)) None], (JObj [(b_x, JNull)]).
  vm_compute. auto.
Qed.
(* input In { r: Int! = 3 }   query($x: In)   {"x":{"r":null}} *)
Lemma refuted_field_null_default_proof :
  exists S vds vars, accepts old_quirks S no_reparse vds vars = true /\ coercible_all std S vds vars = false.
Proof.
  exists (mk_schema [mk_input b_In [mk_field b_r (TNonNull (TNamed n_Int)) (Some (VInt t_3))]]),
         [mk_var b_x (TNamed b_In) None],
         (JObj [(b_x, JObj [(b_r, JNull)])]).
  vm_compute. auto.
Qed.
(* input In { ids: [Int!] = [1] }   query($x: In)   {"x":{"ids":[null]}} *)
Lemma refuted_element_null_default_proof :
  exists S vds vars, accepts old_quirks S no_reparse vds vars = true /\ coercible_all std S vds vars = false.
Proof.
  exists (mk_schema [mk_input b_In [mk_field b_ids (TList (TNonNull (TNamed n_Int))) (Some (VList [VInt t_1]))]]),
         [mk_var b_x (TNamed b_In) None],
         (JObj [(b_x, JObj [(b_ids, JArr [JNull])])]).
  vm_compute. auto.
Qed.
(* input In { k: Int = 1 }   query($x: [In!])   {"x":[null,{}]}  -- the null is overwritten by a copy of the
   second element with its default injected, and the validator never sees it *)
Lemma refuted_inject_drift_proof :
  exists S vds vars,
    pipeline old_quirks S no_reparse vds vars
    = PDone (JObj [(b_x, JArr [JObj [(b_k, num t_1)]; JObj []])]) None
    /\ coercible_all std S vds vars = false.
Proof.
  exists (mk_schema [mk_input b_In [mk_field b_k (TNamed n_Int) (Some (VInt t_1))]]),
         [mk_var b_x (TList (TNonNull (TNamed b_In))) None],
         (JObj [(b_x, JArr [JNull; JObj []])]).
  vm_compute. auto.
Qed.
(* enum E0 { A }  enum E { A B }  input In { k: Int = 1 }   query($x: [E])   {"x":[{}]}
   -- the enum's ref 1 indexes the (single) input object definition: index out of range *)
Lemma refuted_inject_enum_ref_proof :
  exists S vds vars, pipeline old_quirks S no_reparse vds vars = PPanic /\ coercible_all std S vds vars = false.
Proof.
  exists (mk_schema [mk_enum b_E0 [b_A]; mk_enum b_E [b_A; b_B]; mk_input b_In [mk_field b_k (TNamed n_Int) (Some (VInt t_1))]]),
         [mk_var b_x (TList (TNamed b_E)) None],
         (JObj [(b_x, JArr [JObj []])]).
  vm_compute. auto.
Qed.
(* input In { d: Int = 1 }   query($x: In)   {"x":"{}"}  -- jsonparser reads the string's content {} as an object *)
Lemma refuted_inject_reparse_proof :
  exists S reparse vds vars,
    reparse b_braces = Some (JObj [])
    /\ pipeline old_quirks S reparse vds vars = PDone (JObj [(b_x, JObj [(b_d, num t_1)])]) None
    /\ coercible_all std S vds vars = false.
Proof.
  exists (mk_schema [mk_input b_In [mk_field b_d (TNamed n_Int) (Some (VInt t_1))]]),
         (fun s => if bytes_eqb s b_braces then Some (JObj []) else None),
         [mk_var b_x (TNamed b_In) None],
         (JObj [(b_x, JStr b_braces)]).
  vm_compute. auto.
Qed.
(* query($x: [Int!] = null)   {}  -- used to be rejected (the null default was wrapped to [null]);
   repaired in /repo: the request is accepted, as the specification says *)
Example default_null_list_not_wrapped :
  exists S vds vars, pipeline go_quirks S no_reparse vds vars = PDone (JObj [(b_x, JNull)]) None /\ coercible_all std S vds vars = true.
Proof.
  exists (mk_schema []), [mk_var b_x (TList (TNonNull (TNamed n_Int))) (Some VNull)], (JObj []).
  vm_compute. auto.
Qed.
(* scalar Upload   query($a: Upload!, $q: Int)   {"q":1}  -- $q is renamed to a, $a is looked up as q *)
Lemma refuted_remap_collision_proof :
  exists S vds vars, accepts old_quirks S no_reparse vds vars = true /\ coercible_all std S vds vars = false.
Proof.
  exists (mk_schema [mk_scalar n_Upload]),
         [mk_var b_a (TNonNull (TNamed n_Upload)) None; mk_var b_q (TNamed n_Int) None],
         (JObj [(b_q, num t_1)]).
  vm_compute. auto.
Qed.

(* ---- the repaired causes: the same inputs under the code as it is now ---- *)
Example fixed_int_fraction :
  accepts go_quirks (mk_schema [mk_input b_In [mk_field b_k (TNamed n_Int) None]]) no_reparse
          [mk_var b_x (TNamed b_In) None] (JObj [(b_x, JObj [(b_k, num t_1_5)])]) = false.
Proof. vm_compute. reflexivity. Qed.
Example fixed_int_1e100_and_range :
  accepts go_quirks (mk_schema []) no_reparse [mk_var b_x (TNonNull (TNamed n_Int)) None] (JObj [(b_x, num t_1e100)]) = false
  /\ accepts go_quirks (mk_schema []) no_reparse [mk_var b_x (TNamed n_Int) None] (JObj [(b_x, num [50;49;52;55;52;56;51;54;52;56])]) = false
  /\ accepts go_quirks (mk_schema []) no_reparse [mk_var b_x (TNamed n_Int) None] (JObj [(b_x, num [45;50;49;52;55;52;56;51;54;52;56])]) = true.
Proof. vm_compute. repeat split; reflexivity. Qed.
Example fixed_id_fraction :
  accepts go_quirks (mk_schema []) no_reparse [mk_var b_x (TNamed n_ID) None] (JObj [(b_x, num t_1_5)]) = false
  /\ accepts go_quirks (mk_schema []) no_reparse [mk_var b_x (TNamed n_ID) None] (JObj [(b_x, num [57;57;57;57;57;57;57;57;57;57;57;57;57;57;57;57;57;57;57;57;57;57])]) = true.
Proof. vm_compute. split; reflexivity. Qed.
Example fixed_remap_collision :
  exists p, pipeline go_quirks (mk_schema [mk_scalar n_Upload]) no_reparse
                     [mk_var b_a (TNonNull (TNamed n_Upload)) None; mk_var b_q (TNamed n_Int) None] (JObj [(b_q, num t_1)])
            = PDone (JObj [(b_q, num t_1)]) (Some {| e_var := b_a; e_path := p; e_kind := EVarRequired (TNonNull (TNamed n_Upload)) |}).
Proof. eexists. vm_compute. reflexivity. Qed.
Example fixed_field_null_default :
  accepts go_quirks (mk_schema [mk_input b_In [mk_field b_r (TNonNull (TNamed n_Int)) (Some (VInt t_3))]]) no_reparse
          [mk_var b_x (TNamed b_In) None] (JObj [(b_x, JObj [(b_r, JNull)])]) = false.
Proof. vm_compute. reflexivity. Qed.
Example fixed_element_null_default :
  accepts go_quirks (mk_schema [mk_input b_In [mk_field b_ids (TList (TNonNull (TNamed n_Int))) (Some (VList [VInt t_1]))]]) no_reparse
          [mk_var b_x (TNamed b_In) None] (JObj [(b_x, JObj [(b_ids, JArr [JNull])])]) = false.
Proof. vm_compute. reflexivity. Qed.
Example fixed_inject_drift :
  exists e, pipeline go_quirks (mk_schema [mk_input b_In [mk_field b_k (TNamed n_Int) (Some (VInt t_1))]]) no_reparse
                     [mk_var b_x (TList (TNonNull (TNamed b_In))) None] (JObj [(b_x, JArr [JNull; JObj []])])
            = PDone (JObj [(b_x, JArr [JNull; JObj [(b_k, num t_1)]])]) (Some e).
Proof. eexists. vm_compute. reflexivity. Qed.
Example fixed_inject_enum_ref :
  exists e, pipeline go_quirks (mk_schema [mk_enum b_E0 [b_A]; mk_enum b_E [b_A; b_B]; mk_input b_In [mk_field b_k (TNamed n_Int) (Some (VInt t_1))]])
                     no_reparse [mk_var b_x (TList (TNamed b_E)) None] (JObj [(b_x, JArr [JObj []])])
            = PDone (JObj [(b_x, JArr [JObj []])]) (Some e).
Proof. eexists. vm_compute. reflexivity. Qed.
Example fixed_inject_reparse :
  exists e, pipeline go_quirks (mk_schema [mk_input b_In [mk_field b_d (TNamed n_Int) (Some (VInt t_1))]])
                     (fun s => if bytes_eqb s b_braces then Some (JObj []) else None)
                     [mk_var b_x (TNamed b_In) None] (JObj [(b_x, JStr b_braces)])
            = PDone (JObj [(b_x, JStr b_braces)]) (Some e).
Proof. eexists. vm_compute. reflexivity. Qed.

(* ------------------------------------------------------------------ accept_iff_coercible: what is true *)
(* the code as it is, against the specification itself ([std]: Int = 32-bit integer token, ID = string or integer
   token -- no weakening left since the Int / ID repairs); what is left of the other causes (Upload) is
   excluded by an explicit boolean condition; the rest is well-formedness of the schema / operation / JSON *)
Theorem accept_iff_coercible_partial_proof : forall S reparse vds ms,
    fields_nodup S = true ->                  (* schema validity: field names of an input object differ *)
    oneof_no_defaults S = true ->             (* schema validity: OneOf input objects have no defaults *)
    field_defaults_ok std_strict S = true ->  (* schema validity: input field defaults are valid for their type *)
    json_nodup (JObj ms) = true ->            (* no duplicate keys in the variables JSON *)
    vars_nodup vds = true ->                  (* variable names differ *)
    no_upload_ref S vds = true ->             (* excludes upload-exempt-from-non-null (and keeps the mapper's renaming a plain permutation) *)
    forallb (var_default_ok S std) vds = true ->
                                              (* operation validity: a variable's default is a value of its type (full reading: it may need list coercion) *)
    normalise go_quirks S reparse vds ms <> NFuel ->   (* the model's recursion budget for nested defaults suffices *)
    (accepts go_quirks S reparse vds (JObj ms) = true <-> coercible_all std S vds (JObj ms) = true).
Proof.
  intros. apply (pipeline_full_iff_coercible S reparse go_quirks); auto.
Qed.

(* the code with every remaining cause repaired as well ([no_quirks]): the full specification, no weakening *)
Theorem accept_iff_coercible_repaired_proof : forall S reparse vds ms,
    fields_nodup S = true ->
    oneof_no_defaults S = true ->
    field_defaults_ok std_strict S = true ->
    json_nodup (JObj ms) = true ->
    vars_nodup vds = true ->
    no_upload_ref S vds = true ->             (* only for the variables mapper: Upload variables are not renamed *)
    forallb (var_default_ok S std) vds = true ->
    normalise no_quirks S reparse vds ms <> NFuel ->
    (accepts no_quirks S reparse vds (JObj ms) = true <-> coercible_all std S vds (JObj ms) = true).
Proof.
  intros. apply (pipeline_full_iff_coercible S reparse no_quirks); auto.
Qed.

(* the bare validator (whatever normalisation did before) *)
Theorem validator_accept_iff_partial_proof : forall S vds vars,
    fields_nodup S = true -> json_nodup vars = true ->
    no_upload_ref S vds = true ->
    (validate go_quirks S vds vars = None <-> coercible_all std_strict S (map strip_default vds) vars = true).
Proof. intros. apply (validate_iff_coercible go_quirks); auto. Qed.

Theorem validator_accept_iff_repaired_proof : forall S vds vars,
    fields_nodup S = true -> json_nodup vars = true ->
    (validate no_quirks S vds vars = None <-> coercible_all std_strict S (map strip_default vds) vars = true).
Proof. intros. apply (validate_iff_coercible no_quirks); auto. Qed.

(* satisfiability of the hypotheses on a non-trivial case:
   input In { k: Int! l: [[In]] d: Int = 1 }  query($x: [In], $y: Int = 7)  {"x":{"k":2,"d":5,"l":{"k":3,"d":0}}}
   (single values in list positions at two depths, a variable default, every defaulted field provided) *)
Definition ex_schema : schema :=
  mk_schema [mk_input b_In [mk_field b_k (TNonNull (TNamed n_Int)) None;
                            mk_field [108] (TList (TList (TNamed b_In))) None;
                            mk_field b_d (TNamed n_Int) (Some (VInt t_1))]].
Definition ex_vars : list vardef := [mk_var b_x (TList (TNamed b_In)) None; mk_var b_y (TNamed n_Int) (Some (VInt [55]))].
Definition ex_ms : list (bytes * json) :=
  [(b_x, JObj [(b_k, num [50]); (b_d, num [53]); ([108], JObj [(b_k, num t_3); (b_d, num [48])])])].
(* ... and one where defaults ARE injected, two levels deep:
   input B { k: Int!  d: Int = 1 }   input In { k: Int!  l: [[In]]  d: Int = 1  b: B = {k: 5} }
   query($x: [In], $y: Int = 7)   {"x":{"k":2,"l":{"k":3,"b":{"k":4}}}} *)
Definition b_BB : name := [66;66].
Definition b_b : name := [98].
Definition b_l : name := [108].
Definition ex2_schema : schema :=
  mk_schema [mk_input b_BB [mk_field b_k (TNonNull (TNamed n_Int)) None; mk_field b_d (TNamed n_Int) (Some (VInt t_1))];
             mk_input b_In [mk_field b_k (TNonNull (TNamed n_Int)) None;
                            mk_field b_l (TList (TList (TNamed b_In))) None;
                            mk_field b_d (TNamed n_Int) (Some (VInt t_1));
                            mk_field b_b (TNamed b_BB) (Some (VObj [(b_k, VInt [53])]))]].
Definition ex2_ms : list (bytes * json) :=
  [(b_x, JObj [(b_k, num [50]); (b_l, JObj [(b_k, num t_3); (b_b, JObj [(b_k, num [52])])])])].
Example accept_iff_coercible_partial_shaped_hyps :
  fields_nodup ex2_schema = true /\ oneof_no_defaults ex2_schema = true /\ field_defaults_ok std_strict ex2_schema = true
  /\ json_nodup (JObj ex2_ms) = true /\ vars_nodup ex_vars = true
  /\ no_upload_ref ex2_schema ex_vars = true
  /\ forallb (var_default_ok ex2_schema std) ex_vars = true
  /\ pipeline go_quirks ex2_schema no_reparse ex_vars (JObj ex2_ms)
     = PDone (JObj [(b_y, num [55]);
                    (b_x, JArr [JObj [(b_k, num [50]);
                                      (b_l, JArr [JArr [JObj [(b_k, num t_3);
                                                              (b_b, JObj [(b_k, num [52]); (b_d, num t_1)]);
                                                              (b_d, num t_1)]]]);
                                      (b_d, num t_1);
                                      (b_b, JObj [(b_k, num [53]); (b_d, num t_1)])]])]) None.
Proof. vm_compute. repeat split; reflexivity. Qed.
Example accept_iff_coercible_partial_shaped_fuel : normalise go_quirks ex2_schema no_reparse ex_vars ex2_ms <> NFuel.
Proof. vm_compute. discriminate. Qed.

Example accept_iff_coercible_partial_hyps :
  fields_nodup ex_schema = true /\ oneof_no_defaults ex_schema = true /\ field_defaults_ok std_strict ex_schema = true
  /\ json_nodup (JObj ex_ms) = true /\ vars_nodup ex_vars = true /\ no_upload_ref ex_schema ex_vars = true
  /\ forallb (var_default_ok ex_schema std) ex_vars = true
  /\ accepts go_quirks ex_schema no_reparse ex_vars (JObj ex_ms) = true
  /\ jdepth (JObj ex_ms) = 3%nat.
Proof. vm_compute. repeat split; reflexivity. Qed.
(* the shapes the condition [var_shaped] of an earlier version excluded are covered now: a null and a number among
   the elements of a list of input objects -- rejected, as the specification says, with the elements in place *)
Example accept_iff_coercible_partial_unshaped :
  exists e, pipeline go_quirks ex2_schema no_reparse [mk_var b_x (TList (TNonNull (TNamed b_In))) None]
                     (JObj [(b_x, JArr [JNull; num [53]; JObj [(b_k, num [50])]])])
            = PDone (JObj [(b_x, JArr [JNull; num [53]; JObj [(b_k, num [50]); (b_d, num t_1); (b_b, JObj [(b_k, num [53]); (b_d, num t_1)])]])]) (Some e)
  /\ normalise go_quirks ex2_schema no_reparse [mk_var b_x (TList (TNonNull (TNamed b_In))) None]
                  [(b_x, JArr [JNull; num [53]; JObj [(b_k, num [50])]])] <> NFuel.
Proof. eexists. split; [vm_compute; reflexivity|vm_compute; discriminate]. Qed.

(* defaults that need list coercion below their top level are covered since be45b91 (extraction before coercion):
   query($x: [[Int!]] = [1], $y: [[Int]] = 5)  {}   ->   {"y":[[5]],"x":[[1]]} , accepted *)
Example default_needing_nested_coercion :
  let vds := [mk_var b_x (TList (TList (TNonNull (TNamed n_Int)))) (Some (VList [VInt t_1]));
              mk_var b_y (TList (TList (TNamed n_Int))) (Some (VInt [53]))] in
  forallb (var_default_ok (mk_schema []) std) vds = true
  /\ pipeline go_quirks (mk_schema []) no_reparse vds (JObj [])
     = PDone (JObj [(b_y, JArr [JArr [num [53]]]); (b_x, JArr [JArr [num t_1]])]) None.
Proof. vm_compute. split; reflexivity. Qed.

(* ------------------------------------------------------------------ list coercion, unconditionally *)
Theorem list_coercion_correct_proof : forall S j t,
    coercible_j std_strict S (coerce_j S j t) t = coercible_j std S j t.
Proof. intros. apply coerce_correct. Qed.
Example list_coercion_example :
  coerce_j (mk_schema []) (num t_1) (TList (TNonNull (TList (TNamed n_Int)))) = JArr [JArr [num t_1]]
  /\ coerce_j (mk_schema []) (JArr [num t_1; JArr [num t_3]; JNull]) (TList (TList (TNamed n_Int)))
     = JArr [JArr [num t_1]; JArr [num t_3]; JNull].
Proof. vm_compute. auto. Qed.

(* ------------------------------------------------------------------ error_names_offender *)
Theorem error_names_offender_proof : forall q S vds vars e,
    fields_nodup S = true ->
    validate q S vds vars = Some e ->
    exists vd p, In vd vds /\ e_var e = vd_name vd /\ e_path e = PObj (vd_name vd) :: p /\
                 exists t hd oj, resolve S (map step_of p) (vd_type vd) false (jget (vd_name vd) vars) = Some (t, hd, oj)
                                 /\ coercible std_strict S t hd oj = false.
Proof. exact validate_error_offending. Qed.

(* ... but not the FIRST offender: v.err is overwritten by later writers.
   input In { k: Int }   query($x: In, $y: String!)   {"x":{"k":"s"}}: $x.k is the first offending position,
   the error that is returned is about $y *)
Lemma first_offender_refuted_proof :
  exists S vds vars e,
    validate go_quirks S vds vars = Some e
    /\ (exists vd, hd_error vds = Some vd /\ coercible_var std_strict S vars (strip_default vd) = false /\ e_var e <> vd_name vd).
Proof.
  exists (mk_schema [mk_input b_In [mk_field b_k (TNamed n_Int) None]]),
         [mk_var b_x (TNamed b_In) None; mk_var b_y (TNonNull (TNamed n_String)) None],
         (JObj [(b_x, JObj [(b_k, JStr b_s)])]).
  eexists. split; [vm_compute; reflexivity|].
  eexists. split; [reflexivity|]. split; [vm_compute; reflexivity|]. simpl. discriminate.
Qed.
(* with a single declared variable nothing can overwrite across variables: the reported variable is the
   one that does not coerce *)
Theorem first_offender_single_variable_proof : forall S vd vars e,
    fields_nodup S = true -> json_nodup vars = true ->
    no_upload_ref S [vd] = true ->
    validate go_quirks S [vd] vars = Some e ->
    e_var e = vd_name vd /\ coercible_var std_strict S vars (strip_default vd) = false.
Proof.
  intros S vd vars e Hf Hn HU H.
  destruct (validate_error_offending go_quirks S [vd] vars e Hf H) as [vd' [p [Hin [Hv _]]]].
  destruct Hin as [->|[]]. split; auto.
  destruct (coercible_var std_strict S vars (strip_default vd')) eqn:E; auto.
  assert (Hacc : validate go_quirks S [vd'] vars = None).
  { apply (validate_iff_coercible go_quirks); auto. simpl. change (dialect_of go_quirks) with std_strict. rewrite E. reflexivity. }
  congruence.
Qed.

(* ------------------------------------------------------------------ no_echo *)
(* refuted: input In { k: Int }  query($x: In)  {"x":{"secretKey123":1}}: the message names the client's key *)
Lemma no_echo_refuted_proof :
  exists S vds vars e,
    validate go_quirks S vds vars = Some e
    /\ In b_secret (err_names e) /\ ~ In b_secret (schema_names S vds)
    /\ render_msg e = s_Variable_ ++ b_x ++ s_got_invalid ++ s_at_ ++ quoted b_x ++ s_field_ ++ quoted b_secret
                      ++ s_is_not_defined_by_type_ ++ quoted b_In ++ s_dot.
Proof.
  exists (mk_schema [mk_input b_In [mk_field b_k (TNamed n_Int) None]]),
         [mk_var b_x (TNamed b_In) None],
         (JObj [(b_x, JObj [(b_secret, num t_1)])]).
  eexists. split; [vm_compute; reflexivity|].
  split; [vm_compute; auto|]. split; [|vm_compute; reflexivity].
  vm_compute. intros H. repeat (destruct H as [H|H]; [discriminate H|]). exact H.
Qed.

(* every other kind of error only carries names of the operation and the schema, and the message is
   computed from the error alone, ignoring the one piece of client text an error can hold (the enum value) *)
Theorem no_echo_partial_proof : forall q S vds vars e,
    validate q S vds vars = Some e ->
    is_unknown_field (e_kind e) = false ->
    Forall (fun n => In n (schema_names S vds)) (err_names e)
    /\ render_msg e = render_msg (forget_value e).
Proof.
  intros q S vds vars e H Hk. split; [|apply render_msg_forget].
  destruct (validate_error_good q S vds vars e H) as [_ [Hu|Hn]]; auto. congruence.
Qed.

(* the fuel of the validator ( 1 + depth of the variables JSON ) always suffices *)
Theorem validate_fuel_ok_proof : forall q S vds vars e, validate q S vds vars = Some e -> e_kind e <> EOutOfFuel.
Proof. intros q S vds vars e H. apply (validate_error_good q S vds vars e H). Qed.
