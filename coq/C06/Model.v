(* C06 model: what the execution engine does with a request's variables JSON.

   (1) normalisation, per variable definition and in this order (astnormalization, walker stage
       "variablesProcessing" of OperationNormalizer as set up by WithExtractVariables):
         extractVariablesDefaultValue-> [extract_default] (variables_default_value_extraction.go)
         inputCoercionForList        -> [coerce_j]       (input_coercion_for_list.go)
         injectInputFieldDefaults    -> [inject]          (inject_input_default_values.go)
   (2) variablesvalidation.VariablesValidator.Validate   -> [validate]

   All of it at the level of JSON trees (lib/Json) and type trees (lib/Gql); byte level JSON
   handling (jsonparser / sjson / astjson) is not modelled, except where the code re-parses the
   *content* of a JSON string as JSON text, which is an oracle ([reparse], Section variable).

   Every behaviour of the Go code that departs from GraphQL input coercion is kept, each one behind a
   flag of [quirks]; [go_quirks] IS the code as it exists (flags of repaired causes are off in it, [old_quirks]
   has them all on) and is what every theorem about "the implementation" speaks of.  Turning a flag off gives the behaviour a repair of that single cause
   would have; the check uses this to attribute a failing case to a cause (DESIGN.md 2.3).
   No proofs in this file. *)
From Gv Require Import lib.Bytes lib.Json lib.Gql C06.Num.
From Coq Require Import List NArith Bool.
Import ListNotations.
Open Scope N_scope.

(* ------------------------------------------------------------------ names *)
Definition n_Int : name := [73;110;116].
Definition n_Float : name := [70;108;111;97;116].
Definition n_String : name := [83;116;114;105;110;103].
Definition n_Boolean : name := [66;111;111;108;101;97;110].
Definition n_ID : name := [73;68].
Definition n_Upload : name := [85;112;108;111;97;100].
Definition n_oneOf : name := [111;110;101;79;102].
Definition n_inaccessible : name := [105;110;97;99;99;101;115;115;105;98;108;101].

(* ------------------------------------------------------------------ quirks *)
Record quirks := {
  q_int_any_number : bool;     (* traverseNamedTypeNode "Int": any JSON number passes (off: isInt32, an integer token within 32 bits) *)
  q_id_any_number : bool;      (* traverseNamedTypeNode "ID": any JSON number passes (off: isInteger, no fraction / exponent) *)
  q_upload_exempt : bool;      (* Upload is exempt from the non-null checks *)
  q_field_null_default : bool; (* traverseFieldDefinitionType: an explicit null for a T! field passes when the field has a default *)
  q_elem_null_default : bool;  (* ... and so does a null ELEMENT below that field, at any list depth *)
  q_inject_drift : bool;       (* inject jsonWalker: element counter only advances on processed elements *)
  q_inject_kind : bool;        (* inject: a non input-object node's ref indexes InputObjectTypeDefinitions *)
  q_inject_reparse : bool;     (* inject: the unquoted content of a JSON string is parsed as JSON text *)
  q_remap_collision : bool     (* variables mapper: the name of an Upload variable (never renamed) is handed out to another
                                  variable; the Upload variable is then looked up under that variable's original name *)
}.
(* the code before the repairs of /repo recorded as "fixed:" in KNOWN_FINDINGS.txt: every deviation present *)
Definition old_quirks : quirks := Build_quirks true true true true true true true true true.
(* THE CODE AS IT IS.  Repaired since (fixed: field-null-uses-field-default, list-element-null-uses-field-default,
   inject-defaults-index-drift, inject-defaults-enum-ref, inject-defaults-string-reparsed, remap-name-collision-upload,
   int-accepts-non-int32, id-accepts-non-integer-number): those flags are off.  What remains is the Upload
   exemption (deliberate: a multipart upload request carries null for the file variables). *)
Definition go_quirks : quirks :=
  {| q_int_any_number := false; q_id_any_number := false; q_upload_exempt := true;
     q_field_null_default := false; q_elem_null_default := false;
     q_inject_drift := false; q_inject_kind := false; q_inject_reparse := false;
     q_remap_collision := false |}.
Definition no_quirks : quirks := Build_quirks false false false false false false false false false.

(* ------------------------------------------------------------------ type helpers *)
Definition is_nonnull (t : ty) : bool := match t with TNonNull _ => true | _ => false end.
(* ast.ResolveListOrNameType *)
Fixpoint strip_nonnull (t : ty) : ty := match t with TNonNull t' => strip_nonnull t' | _ => t end.
(* ast.TypeIsList *)
Definition is_list (t : ty) : bool := match strip_nonnull t with TList _ => true | _ => false end.
(* ast.TypeNumberOfListWraps / calculateNestingDepth *)
Fixpoint list_depth (t : ty) : nat :=
  match t with TNamed _ => O | TList t' => S (list_depth t') | TNonNull t' => list_depth t' end.
(* ast.PrintType *)
Fixpoint print_type (t : ty) : bytes :=
  match t with
  | TNamed n => n
  | TList t' => [91] ++ print_type t' ++ [93]
  | TNonNull t' => print_type t' ++ [33]
  end.

Definition has_dir (dn : name) (ds : list directive) : bool := existsb (fun d => bytes_eqb (d_name d) dn) ds.
Definition has_default (f : inputvalue_def) : bool := match iv_default f with Some _ => true | None => false end.
Fixpoint find_ifield (k : name) (fs : list inputvalue_def) : option inputvalue_def :=
  match fs with
  | [] => None
  | f :: r => if bytes_eqb k (iv_name f) then Some f else find_ifield k r
  end.
Definition lookup (S : schema) (n : name) : option type_def := find_type n (s_types S).
Definition is_null (j : json) : bool := match j with JNull => true | _ => false end.
Definition absent_or_null (oj : option json) : bool := match oj with None => true | Some j => is_null j end.

Fixpoint jdepth (j : json) : nat :=
  match j with
  | JArr l => S ((fix go (l : list json) : nat := match l with [] => O | x :: r => Nat.max (jdepth x) (go r) end) l)
  | JObj m => S ((fix go (m : list (bytes * json)) : nat := match m with [] => O | kv :: r => Nat.max (jdepth (snd kv)) (go r) end) m)
  | _ => O
  end.

(* ------------------------------------------------------------------ validator: errors *)
Inductive pitem := PObj (n : name) | PArr (i : N).
Definition path := list pitem.

Inductive ekind :=
| EVarRequired (t : ty)                 (* renderVariableRequiredError *)
| EVarNull (t : ty)                     (* renderVariableInvalidNullError *)
| ENotObject (tn : name)                (* renderVariableInvalidObjectTypeError *)
| EFieldRequired (fn : name) (t : ty)   (* renderVariableRequiredNotProvidedError *)
| EScalar (tn : name)                   (* renderVariableInvalidNestedTypeError, built-in scalar *)
| EWantList (tn : name)                 (* renderVariableInvalidNestedTypeError, expectedList *)
| EEnumNonString (tn : name)            (* renderVariableInvalidNestedTypeError, enum *)
| EUnknownField (key : bytes) (tn : name) (* renderVariableFieldNotDefinedError: key is CLIENT text *)
| EEnumValue (tn : name) (v : bytes)    (* renderVariableEnumValueDoesNotExistError: v is CLIENT text *)
| EOneOfCount (tn : name) (n : nat)
| EOneOfNull (tn : name) (fn : name)
| EOutOfFuel.                           (* model artefact; excluded by [validate_fuel_ok] *)

Record verr := { e_var : name; e_path : path; e_kind : ekind }.
Definition vstate := option verr.   (* variablesVisitor.err *)

Section Validator.
  Variable q : quirks.
  Variable S : schema.

  Section OneVariable.
    Variable var : name.   (* currentVariableName *)
    Definition mk (p : path) (k : ekind) : vstate := Some {| e_var := var; e_path := p; e_kind := k |}.

    (* the "for i, arrayValue := range" loops: no look at v.err in between *)
    Fixpoint trav_elems (go : json -> path -> vstate -> vstate) (items : list json) (i : N) (p : path) (st : vstate) : vstate :=
      match items with
      | [] => st
      | x :: r => trav_elems go r (i + 1) p (go x (p ++ [PArr i]) st)
      end.

    Definition upload_direct (t : ty) : bool := match t with TNamed n => bytes_eqb n n_Upload | _ => false end.
    (* does the field's default excuse a missing/null value here?  [top] = at the field itself
       (not inside its list value).  The Go code does not make the distinction: with the quirks on
       the answer is yes everywhere. *)
    Definition default_excuses (top : bool) (oj : option json) : bool :=
      match oj with
      | None => if top then true else q_elem_null_default q
      | Some _ => if top then q_field_null_default q else q_elem_null_default q
      end.

    (* traverseFieldDefinitionType *)
    Fixpoint trav_field (named : name -> json -> path -> vstate -> vstate) (f : inputvalue_def) (top : bool)
             (t : ty) (oj : option json) (p : path) (st : vstate) {struct t} : vstate :=
      match t with
      | TNonNull t' =>
        if absent_or_null oj then
          if upload_direct t' && q_upload_exempt q then st
          else if has_default f && default_excuses top oj then st
          else (* error rendered, then the code falls through into the recursive call *)
            trav_field named f top t' oj p (mk p (EFieldRequired (iv_name f) t))
        else trav_field named f top t' oj p st
      | TList t' =>
        match oj with
        | None | Some JNull => st
        | Some (JArr items) => trav_elems (fun x p' st' => trav_field named f false t' (Some x) p' st') items 0 p st
        | Some _ => mk p (EWantList (named_of t))
        end
      | TNamed n =>
        match oj with
        | None | Some JNull => st
        | Some j => named n j p st
        end
      end.

    (* the loop over the input object's field definitions; [true] = returned from inside the loop *)
    Fixpoint trav_fields (named : name -> json -> path -> vstate -> vstate) (fs : list inputvalue_def)
             (ms : list (bytes * json)) (p : path) (st : vstate) : vstate * bool :=
      match fs with
      | [] => (st, false)
      | f :: r =>
        match st with
        | Some _ => (st, true)
        | None => trav_fields named r ms p
                    (trav_field named f true (iv_type f) (obj_get (iv_name f) ms) (p ++ [PObj (iv_name f)]) st)
        end
      end.

    Fixpoint first_unknown (fs : list inputvalue_def) (ms : list (bytes * json)) : option bytes :=
      match ms with
      | [] => None
      | (k, _) :: r => match find_ifield k fs with None => Some k | Some _ => first_unknown fs r end
      end.

    Definition scalar_ok (n : name) (j : json) : bool :=
      if bytes_eqb n n_String then match j with JStr _ => true | _ => false end
      else if bytes_eqb n n_Int then match j with JNum raw => q_int_any_number q || num_is_int32 raw | _ => false end
      else if bytes_eqb n n_Float then match j with JNum _ => true | _ => false end
      else if bytes_eqb n n_Boolean then match j with JBool _ => true | _ => false end
      else if bytes_eqb n n_ID then
        match j with JStr _ => true | JNum raw => q_id_any_number q || num_is_integer raw | _ => false end
      else true.

    (* EnumTypeDefinitionContainsEnumValueWithDirective(.., "inaccessible"): first value of that name *)
    Fixpoint enum_lookup (s : bytes) (vs : list enum_value_def) : option bool :=
      match vs with
      | [] => None
      | v :: r => if bytes_eqb s (ev_name v) then Some (has_dir n_inaccessible (ev_dirs v)) else enum_lookup s r
      end.

    (* traverseNamedTypeNode (jsonValue is never nil/null here) *)
    Fixpoint trav_named (fuel : nat) (n : name) (j : json) (p : path) (st : vstate) : vstate :=
      match st with
      | Some _ => st
      | None =>
        match lookup S n with
        | None => None
        | Some td =>
          match td_kind td with
          | KInputObject =>
            match j with
            | JObj ms =>
              match fuel with
              | O => mk p EOutOfFuel
              | Datatypes.S fuel' =>
                let '(st1, early) := trav_fields (trav_named fuel') (td_input_fields td) ms p None in
                if early then st1 else
                  match first_unknown (td_input_fields td) ms with
                  | Some k => mk p (EUnknownField k n)
                  | None =>
                    if has_dir n_oneOf (td_dirs td) then
                      match ms with
                      | [(k, JNull)] => mk p (EOneOfNull n k)
                      | [_] => st1
                      | _ => mk p (EOneOfCount n (length ms))
                      end
                    else st1
                  end
              end
            | _ => mk p (ENotObject n)
            end
          | KScalar => if scalar_ok n j then None else mk p (EScalar n)
          | KEnum =>
            match j with
            | JStr s =>
              match enum_lookup s (td_enum_values td) with
              | Some false => None
              | _ => mk p (EEnumValue n s)
              end
            | _ => mk p (EEnumNonString n)
            end
          | _ => None
          end
        end
      end.

    (* traverseOperationType *)
    Fixpoint trav_op (named : name -> json -> path -> vstate -> vstate) (t : ty) (oj : option json) (p : path) (st : vstate)
             {struct t} : vstate :=
      match t with
      | TNonNull t' =>
        match oj with
        | None => mk p (EVarRequired t)
        | Some j =>
          if is_null j && negb (q_upload_exempt q && bytes_eqb (named_of t) n_Upload) then mk p (EVarNull t)
          else trav_op named t' oj p st
        end
      | TList t' =>
        match oj with
        | None | Some JNull => st
        | Some (JArr items) => trav_elems (fun x p' st' => trav_op named t' (Some x) p' st') items 0 p st
        | Some _ => mk p (ENotObject (named_of t))
        end
      | TNamed n =>
        match oj with
        | None | Some JNull => st
        | Some j => named n j p st
        end
      end.
  End OneVariable.

  (* EnterVariableDefinition (no remap: the mapper's renaming is undone by ValidateWithRemap) *)
  Definition validate_var (fuel : nat) (vars : json) (st : vstate) (vd : vardef) : vstate :=
    trav_op (vd_name vd) (trav_named (vd_name vd) fuel) (vd_type vd) (jget (vd_name vd) vars) [PObj (vd_name vd)] st.

  Definition validate_fuel (fuel : nat) (vds : list vardef) (vars : json) : vstate :=
    fold_left (validate_var fuel vars) vds None.
  Definition validate (vds : list vardef) (vars : json) : vstate := validate_fuel (Datatypes.S (jdepth vars)) vds vars.
End Validator.

(* ------------------------------------------------------------------ message (DisableExposingVariablesContent = true) *)
Fixpoint dec_aux (fuel : nat) (n : N) (acc : bytes) : bytes :=
  match fuel with
  | O => acc
  | Datatypes.S f => let acc' := (48 + n mod 10) :: acc in if n / 10 =? 0 then acc' else dec_aux f (n / 10) acc'
  end.
Definition dec (n : N) : bytes := dec_aux (Datatypes.S (N.to_nat (N.log2 n))) n [].

Definition render_pitem (i : pitem) : bytes :=
  match i with PObj n => n | PArr k => [91] ++ dec k ++ [93] end.
Fixpoint render_path (p : path) : bytes :=
  match p with
  | [] => []
  | [i] => render_pitem i
  | i :: r => render_pitem i ++ [46] ++ render_path r
  end.
Definition quoted (s : bytes) : bytes := [34] ++ s ++ [34].

(* string literals, as bytes *)
Definition s_Variable_ : bytes := [86;97;114;105;97;98;108;101;32;34;36].                      (* Variable, quote, dollar *)
Definition s_got_invalid : bytes := [34;32;103;111;116;32;105;110;118;97;108;105;100;32;118;97;108;117;101]. (* quote, got invalid value *)
Definition s_at_ : bytes := [32;97;116;32].                                                       (*  at  *)
Definition s_of_required_type_ : bytes := [32;111;102;32;114;101;113;117;105;114;101;100;32;116;121;112;101;32]. (*  of required type  *)
Definition s_was_not_provided : bytes := [32;119;97;115;32;110;111;116;32;112;114;111;118;105;100;101;100;46].  (*  was not provided. *)
Definition s_null_expected_nonnull : bytes :=
  [32;110;117;108;108;59;32;69;120;112;101;99;116;101;100;32;110;111;110;45;110;117;108;108;97;98;108;101;32;116;121;112;101;32]. (*  null; Expected non-nullable type  *)
Definition s_not_to_be_null : bytes := [32;110;111;116;32;116;111;32;98;101;32;110;117;108;108;46]. (*  not to be null. *)
Definition s_expected_type_ : bytes := [59;32;69;120;112;101;99;116;101;100;32;116;121;112;101;32]. (* ; Expected type  *)
Definition s_to_be_an_object : bytes := [32;116;111;32;98;101;32;97;110;32;111;98;106;101;99;116;46]. (*  to be an object. *)
Definition s_field_ : bytes := [59;32;70;105;101;108;100;32].                                       (* ; Field  *)
Definition s_is_not_defined_by_type_ : bytes :=
  [32;105;115;32;110;111;116;32;100;101;102;105;110;101;100;32;98;121;32;116;121;112;101;32].       (*  is not defined by type  *)
Definition s_dot : bytes := [46].
Definition s_string_cannot : bytes :=
  [59;32;83;116;114;105;110;103;32;99;97;110;110;111;116;32;114;101;112;114;101;115;101;110;116;32;97;32;110;111;110;32;115;116;114;105;110;103;32;118;97;108;117;101].
Definition s_int_cannot : bytes :=
  [59;32;73;110;116;32;99;97;110;110;111;116;32;114;101;112;114;101;115;101;110;116;32;110;111;110;45;105;110;116;101;103;101;114;32;118;97;108;117;101].
Definition s_float_cannot : bytes :=
  [59;32;70;108;111;97;116;32;99;97;110;110;111;116;32;114;101;112;114;101;115;101;110;116;32;110;111;110;32;110;117;109;101;114;105;99;32;118;97;108;117;101].
Definition s_boolean_cannot : bytes :=
  [59;32;66;111;111;108;101;97;110;32;99;97;110;110;111;116;32;114;101;112;114;101;115;101;110;116;32;97;32;110;111;110;32;98;111;111;108;101;97;110;32;118;97;108;117;101].
Definition s_id_cannot : bytes :=
  [59;32;73;68;32;99;97;110;110;111;116;32;114;101;112;114;101;115;101;110;116;32;97;32;110;111;110;45;115;116;114;105;110;103;32;97;110;100;32;110;111;110;45;105;110;116;101;103;101;114;32;118;97;108;117;101].
Definition s_to_be_a_scalar : bytes := [32;116;111;32;98;101;32;97;32;115;99;97;108;97;114;46].   (*  to be a scalar. *)
Definition s_got_input_type_ : bytes := [59;32;71;111;116;32;105;110;112;117;116;32;116;121;112;101;32]. (* ; Got input type  *)
Definition s_want_ : bytes := [44;32;119;97;110;116;58;32].                                          (* , want:  *)
Definition s_enum_ : bytes := [59;32;69;110;117;109;32].                                             (* ; Enum  *)
Definition s_cannot_nonstring : bytes :=
  [32;99;97;110;110;111;116;32;114;101;112;114;101;115;101;110;116;32;110;111;110;45;115;116;114;105;110;103;32;118;97;108;117;101;46].
Definition s_value_does_not_exist_in_ : bytes :=
  [59;32;86;97;108;117;101;32;100;111;101;115;32;110;111;116;32;101;120;105;115;116;32;105;110;32]. (* ; Value does not exist in  *)
Definition s__enum : bytes := [32;101;110;117;109;46].                                               (*  enum. *)
Definition s_oneof_ : bytes := [59;32;79;110;101;79;102;32;105;110;112;117;116;32;111;98;106;101;99;116;32]. (* ; OneOf input object  *)
Definition s_must_have_exactly : bytes :=
  [32;109;117;115;116;32;104;97;118;101;32;101;120;97;99;116;108;121;32;111;110;101;32;102;105;101;108;100;32;112;114;111;118;105;100;101;100;44;32;98;117;116;32].
Definition s_fields_were_provided : bytes :=
  [32;102;105;101;108;100;115;32;119;101;114;101;32;112;114;111;118;105;100;101;100;46].
Definition s__field_ : bytes := [32;102;105;101;108;100;32].                                         (*  field  *)
Definition s_value_must_be_nonnull : bytes :=
  [32;118;97;108;117;101;32;109;117;115;116;32;98;101;32;110;111;110;45;110;117;108;108;46].         (*  value must be non-null. *)

(* invalidValueMessage with content disabled *)
Definition ivm (var : name) : bytes := s_Variable_ ++ var ++ s_got_invalid.
(* the optional  at "<path>"  (only when the path is longer than the variable itself) *)
Definition opt_at (p : path) : bytes :=
  match p with
  | _ :: _ :: _ => s_at_ ++ quoted (render_path p)
  | _ => []
  end.
Definition scalar_phrase (tn : name) : bytes :=
  if bytes_eqb tn n_String then s_string_cannot
  else if bytes_eqb tn n_Int then s_int_cannot
  else if bytes_eqb tn n_Float then s_float_cannot
  else if bytes_eqb tn n_Boolean then s_boolean_cannot
  else if bytes_eqb tn n_ID then s_id_cannot
  else s_expected_type_ ++ quoted tn ++ s_to_be_a_scalar.

Definition render_msg (e : verr) : bytes :=
  let v := e_var e in
  let p := e_path e in
  match e_kind e with
  | EVarRequired t => s_Variable_ ++ v ++ [34] ++ s_of_required_type_ ++ quoted (print_type t) ++ s_was_not_provided
  | EVarNull t => ivm v ++ s_null_expected_nonnull ++ quoted (print_type t) ++ s_not_to_be_null
  | ENotObject tn => ivm v ++ s_expected_type_ ++ quoted tn ++ s_to_be_an_object
  | EFieldRequired fn t => ivm v ++ s_field_ ++ quoted fn ++ s_of_required_type_ ++ quoted (print_type t) ++ s_was_not_provided
  | EScalar tn => ivm v ++ opt_at p ++ scalar_phrase tn
  | EWantList tn => ivm v ++ opt_at p ++ s_got_input_type_ ++ quoted tn ++ s_want_ ++ quoted ([91] ++ tn ++ [93])
  | EEnumNonString tn => ivm v ++ opt_at p ++ s_enum_ ++ quoted tn ++ s_cannot_nonstring
  | EUnknownField k tn => ivm v ++ s_at_ ++ quoted (render_path p) ++ s_field_ ++ quoted k ++ s_is_not_defined_by_type_ ++ quoted tn ++ s_dot
  | EEnumValue tn _ => ivm v ++ opt_at p ++ s_value_does_not_exist_in_ ++ quoted tn ++ s__enum
  | EOneOfCount tn n => ivm v ++ opt_at p ++ s_oneof_ ++ quoted tn ++ s_must_have_exactly ++ dec (N.of_nat n) ++ s_fields_were_provided
  | EOneOfNull tn fn => ivm v ++ opt_at p ++ s_oneof_ ++ quoted tn ++ s__field_ ++ quoted fn ++ s_value_must_be_nonnull
  | EOutOfFuel => []
  end.

(* ------------------------------------------------------------------ normalisation 1: list coercion *)
Fixpoint wrap_n (k : nat) (j : json) : json :=
  match k with O => j | Datatypes.S k' => JArr [wrap_n k' j] end.

(* inputCoercionForListVisitor: processTypeKindList / processTypeKindNamed / walkJsonObject / walkJsonArray.
   A non-array, non-null value in a list position is wrapped calculateNestingDepth times and the walk
   continues inside it, i.e. on the original value at the named type. *)
Fixpoint coerce_j (S : schema) (j : json) (t : ty) {struct j} : json :=
  let named (n : name) : json :=
    match j with
    | JObj ms =>
      match lookup S n with
      | Some td =>
        match td_kind td with
        | KInputObject =>
          JObj ((fix mm (ms : list (bytes * json)) : list (bytes * json) :=
                   match ms with
                   | [] => []
                   | (k, v) :: r =>
                     (k, match find_ifield k (td_input_fields td) with
                         | Some f => coerce_j S v (iv_type f)
                         | None => v     (* unknown keys are left to the validator *)
                         end) :: mm r
                   end) ms)
        | _ => j
        end
      | None => j
      end
    | _ => j
    end in
  match strip_nonnull t with
  | TList t' =>
    match j with
    | JArr items => JArr ((fix mi (l : list json) : list json :=
                             match l with [] => [] | x :: r => coerce_j S x t' :: mi r end) items)
    | JNull => JNull
    | _ => wrap_n (list_depth t) (named (named_of t))
    end
  | TNamed n => named n
  | TNonNull _ => j
  end.

(* ------------------------------------------------------------------ normalisation 2: variable defaults *)
(* ast.ValueToJSON on the literals a default value can be *)
Fixpoint value_to_json (v : value) : json :=
  match v with
  | VVar _ => JNull
  | VInt raw => JNum raw
  | VFloat raw => JNum raw
  | VStr raw _ => JStr raw
  | VBool b => JBool b
  | VNull => JNull
  | VEnum n => JStr n
  | VList items => JArr ((fix go (l : list value) : list json := match l with [] => [] | x :: r => value_to_json x :: go r end) items)
  | VObj fs => JObj ((fix go (l : list (name * value)) : list (bytes * json) :=
                        match l with [] => [] | (k, x) :: r => (k, value_to_json x) :: go r end) fs)
  end.

Fixpoint set_member (k : bytes) (v : json) (ms : list (bytes * json)) : list (bytes * json) :=
  match ms with
  | [] => [(k, v)]
  | (k', v') :: r => if bytes_eqb k k' then (k', v) :: r else (k', v') :: set_member k v r
  end.

(* variablesDefaultValueExtractionVisitor.EnterVariableDefinition: only when the variable is absent.
   A non-array default of a list variable is wrapped to the full depth; a null default stays null
   (the code used to wrap it too -- repaired in /repo, see KNOWN_FINDINGS "fixed:" default-null-list-wrapped). *)
Definition extract_default (q : quirks) (vd : vardef) (ms : list (bytes * json)) : list (bytes * json) :=
  match vd_default vd with
  | None => ms
  | Some d =>
    match obj_get (vd_name vd) ms with
    | Some _ => ms
    | None =>
      let dj := value_to_json d in
      let dj' := if is_list (vd_type vd) then
                   match dj with
                   | JArr _ => dj
                   | JNull => dj
                   | _ => wrap_n (list_depth (vd_type vd)) dj
                   end
                 else dj in
      (vd_name vd, dj') :: ms   (* sjson.SetRawBytes puts a new key FIRST *)
    end
  end.

(* ------------------------------------------------------------------ normalisation 3: input field defaults *)
Inductive ires :=
| IOk (v : json) (replaced : bool)
| IErr        (* an error return; StopWithInternalErr at the top, swallowed inside jsonWalker *)
| IPanic      (* index out of range on InputObjectTypeDefinitions *)
| IFuel.      (* model artefact *)

Fixpoint set_nth (i : nat) (v : json) (l : list json) : list json :=
  match l, i with
  | [], _ => []
  | _ :: r, O => v :: r
  | x :: r, Datatypes.S i' => x :: set_nth i' v r
  end.

Section Inject.
  Variable q : quirks.
  Variable S : schema.
  (* jsonparser.Get on the unquoted content of a JSON string: Some v when it reads as a JSON value *)
  Variable reparse : bytes -> option json.

  (* isScalarTypeOrExtension *)
  Definition is_scalar_or_enum (t : ty) : bool :=
    match strip_nonnull t with
    | TNamed n => match lookup S n with
                  | Some td => match td_kind td with KScalar | KEnum => true | _ => false end
                  | None => false
                  end
    | _ => false
    end.

  Definition kind_eqb (a b : type_kind) : bool :=
    match a, b with
    | KScalar, KScalar | KObject, KObject | KInterface, KInterface | KUnion, KUnion | KEnum, KEnum
    | KInputObject, KInputObject => true
    | _, _ => false
    end.
  (* node.Ref: position of the type among the definitions of its own kind, in document order *)
  Fixpoint kind_index (k : type_kind) (n : name) (ts : list type_def) : nat :=
    match ts with
    | [] => O
    | t :: r => if bytes_eqb n (td_name t) then O
                else if kind_eqb k (td_kind t) then Datatypes.S (kind_index k n r) else kind_index k n r
    end.
  Definition input_objects : list type_def := filter (fun t => kind_eqb KInputObject (td_kind t)) (s_types S).
  (* definition.InputObjectTypeDefinitions[node.Ref] for a node of ANY kind; None = index out of range *)
  Definition fields_by_ref (td : type_def) : option (list inputvalue_def) :=
    match td_kind td with
    | KInputObject => Some (td_input_fields td)
    | k => match nth_error input_objects (kind_index k (td_name td) (s_types S)) with
           | Some o => Some (td_input_fields o)
           | None => None
           end
    end.

  (* jsonparser.Set(obj, v, key): fails on anything that is not an object *)
  Definition jset (val : json) (k : bytes) (v : json) : option json :=
    match val with JObj ms => Some (JObj (set_member k v ms)) | _ => None end.

  (* recursiveInjectInputFields [inject_fields / inject_loop] and jsonWalker [inject_walk], over the
     processObjectOrListInput of the next fuel level [inj] *)
  Section Parts.
    Variable inj : ty -> json -> ires.

    (* the loop over the field definitions; lookups go to the ORIGINAL value [v], writes to [final] *)
    Fixpoint inject_loop (v : json) (fs : list inputvalue_def) (final : json) (any : bool) : ires :=
      match fs with
      | [] => IOk final any
      | f :: r =>
        match v with
        | JStr _ => IErr   (* only reachable with q_inject_reparse off *)
        | _ =>
          let ex := jget (iv_name f) v in
          (* repaired code: a member that is a JSON string is left alone ("continue") *)
          if negb (q_inject_reparse q) && (match ex with Some (JStr _) => true | _ => false end) then inject_loop v r final any else
          if is_scalar_or_enum (iv_type f) then
            match iv_default f, ex with
            | Some d, None =>
              match jset final (iv_name f) (value_to_json d) with
              | Some final' => inject_loop v r final' true
              | None => IErr
              end
            | _, _ => inject_loop v r final any
            end
          else
            let use := match ex, iv_default f with
                       | Some x, _ => Some x
                       | None, Some d => Some (value_to_json d)
                       | None, None => None
                       end in
            match use with
            | None => inject_loop v r final any
            | Some u =>
              match inj (iv_type f) u with
              | IOk fv rep =>
                if (match ex with None => true | Some _ => false end) || rep then
                  match jset final (iv_name f) fv with
                  | Some final' => inject_loop v r final' true
                  | None => IErr
                  end
                else inject_loop v r final any
              | other => other
              end
            end
        end
      end.

    Definition inject_fields (ofs : option (list inputvalue_def)) (v : json) : ires :=
      match ofs with
      | None => IPanic
      | Some fs => inject_loop v fs v false
      end.

    (* the callback of jsonparser.ArrayEach: [idx] = position of the element, [i] = the counter the code keeps *)
    Fixpoint inject_walk (lol : bool) (ofs : option (list inputvalue_def)) (t' : ty)
             (l : list json) (idx i : nat) (cur : list json) (rep : bool) : ires :=
      match l with
      | [] => IOk (JArr cur) rep
      | x :: r =>
        let processed :=
            match x with
            | JArr _ => if lol then Some (inj t' x) else None
            | JObj _ => if lol then None else Some (inject_fields ofs x)
            | _ => None
            end in
        let at_i := if q_inject_drift q then i else idx in
        let skip_i := if q_inject_drift q then i else Datatypes.S i in
        match processed with
        | None => inject_walk lol ofs t' r (Datatypes.S idx) skip_i cur rep
        | Some (IOk nv true) => inject_walk lol ofs t' r (Datatypes.S idx) (Datatypes.S i) (set_nth at_i nv cur) true
        | Some (IOk _ false) => inject_walk lol ofs t' r (Datatypes.S idx) (Datatypes.S i) cur rep
        | Some IErr => inject_walk lol ofs t' r (Datatypes.S idx) skip_i cur rep   (* "if err != nil { return }" *)
        | Some other => other
        end
      end.
  End Parts.

  (* processObjectOrListInput *)
  Fixpoint inject (fuel : nat) (ft : ty) (val0 : json) {struct fuel} : ires :=
    match fuel with
    | O => IFuel
    | Datatypes.S fuel' =>
      (* the value was obtained with jsonparser.Get, which strips the quotes of a string; it is
         then handed to jsonparser.Get again *)
      let oval := match val0 with
                  | JStr s => if q_inject_reparse q then reparse s else Some val0
                  | _ => Some val0
                  end in
      match oval with
      | None => IErr
      | Some val =>
        match lookup S (named_of ft) with
        | None => IOk val0 false
        | Some td =>
          match td_kind td with
          | KScalar => IOk val0 false
          | k =>
            if negb (q_inject_kind q) && negb (kind_eqb k KInputObject) then IOk val0 false else
            match val with
            | JNull => IOk val true
            | JArr items =>
              if is_list ft then
                match strip_nonnull ft with
                | TList t' => inject_walk (inject fuel') (is_list t') (fields_by_ref td) t' items O O items false
                | _ => IOk val0 false
                end
              else IOk val0 false
            | _ => if is_list ft then IOk val0 false else
                     match inject_fields (inject fuel') (fields_by_ref td) val with
                     | IOk v false => IOk val0 false
                     | other => other
                     end
            end
          end
        end
      end
    end.

  Definition inject_budget (j : json) : nat :=
    let defaults := flat_map (fun td => flat_map (fun f => match iv_default f with
                                                           | Some d => [Datatypes.S (jdepth (value_to_json d))]
                                                           | None => [] end) (td_input_fields td)) (s_types S) in
    (2 * (jdepth j + fold_right Nat.add O defaults) + 4)%nat.
End Inject.

(* ------------------------------------------------------------------ variables mapper *)
(* astnormalization.VariablesMapper: every variable whose base type is not Upload is renamed to the next
   unused generated name (a..z, aa..zz, ...) in the order of first use in the selection set -- taken here
   to be the order of definition --, the definitions are then sorted by their CURRENT name, and
   ValidateWithRemap looks a definition up under mapping[current name] when that key exists. *)
Definition letter_name (k : nat) : name :=
  repeat (97 + N.of_nat (Nat.modulo k 26)) (Datatypes.S (Nat.div k 26)).
Definition is_upload_var (vd : vardef) : bool := bytes_eqb (named_of (vd_type vd)) n_Upload.
Fixpoint assign_names (vds : list vardef) (k : nat) : list (name * vardef) :=
  match vds with
  | [] => []
  | vd :: r => if is_upload_var vd then (vd_name vd, vd) :: assign_names r k
               else (letter_name k, vd) :: assign_names r (Datatypes.S k)
  end.
Fixpoint bytes_ltb (a b : bytes) : bool :=
  match a, b with
  | _, [] => false
  | [], _ :: _ => true
  | x :: a', y :: b' => (x <? y) || ((x =? y) && bytes_ltb a' b')
  end.
(* insertion sort, stable (slices.SortFunc uses insertion sort below 12 elements) *)
Fixpoint insert_by_name (x : name * vardef) (l : list (name * vardef)) : list (name * vardef) :=
  match l with
  | [] => [x]
  | y :: r => if bytes_ltb (fst x) (fst y) then x :: l else y :: insert_by_name x r
  end.
Definition sort_by_name (l : list (name * vardef)) : list (name * vardef) :=
  fold_left (fun acc x => insert_by_name x acc) l [].
Fixpoint assoc_name (k : name) (l : list (name * name)) : option name :=
  match l with
  | [] => None
  | (k', v) :: r => if bytes_eqb k k' then Some v else assoc_name k r
  end.
(* repaired mapper (cfe9ebe): generateUnusedVariableMappingName also skips the RESERVED names, i.e. the names of the
   definitions that are not renamed (here: the Upload variables) *)
Fixpoint next_free (fuel : nat) (reserved : list name) (k : nat) : nat :=
  match fuel with
  | O => k
  | Datatypes.S f => if mem_bytes (letter_name k) reserved then next_free f reserved (Datatypes.S k) else k
  end.
Fixpoint assign_names_avoid (reserved : list name) (vds : list vardef) (k : nat) : list (name * vardef) :=
  match vds with
  | [] => []
  | vd :: r => if is_upload_var vd then (vd_name vd, vd) :: assign_names_avoid reserved r k
               else let k' := next_free (Datatypes.S (length reserved)) reserved k in
                    (letter_name k', vd) :: assign_names_avoid reserved r (Datatypes.S k')
  end.
Definition reserved_names (vds : list vardef) : list name := map vd_name (filter is_upload_var vds).

(* the definitions in the order the validator visits them, each under the name it is looked up
   (and reported) with.  [q_remap_collision] on = the mapper as it was: reserved names were handed out. *)
Definition remap (q : quirks) (vds : list vardef) : list vardef :=
  let named := if q_remap_collision q then assign_names vds O else assign_names_avoid (reserved_names vds) vds O in
  let mapping := flat_map (fun cv => if is_upload_var (snd cv) then [] else [(fst cv, vd_name (snd cv))]) named in
  map (fun cv =>
         let eff := match assoc_name (fst cv) mapping with Some o => o | None => fst cv end in
         {| vd_name := eff; vd_type := vd_type (snd cv); vd_default := vd_default (snd cv); vd_dirs := vd_dirs (snd cv) |})
      (sort_by_name named).

(* ------------------------------------------------------------------ the pipeline *)
Inductive presult :=
| PNormErr                         (* normalisation stopped with an internal error: request rejected *)
| PPanic
| PFuel
| PDone (normalised : json) (v : vstate).

Section Pipeline.
  Variable q : quirks.
  Variable S : schema.
  Variable reparse : bytes -> option json.

  Inductive nres := NOk (ms : list (bytes * json)) | NErr | NPanic | NFuel.

  Definition norm_var (vd : vardef) (ms : list (bytes * json)) : nres :=
    let n := vd_name vd in
    (* 1. default of the variable (be45b91: before list coercion, so that the default is coerced too) *)
    let ms1 := extract_default q vd ms in
    (* 2. list coercion (only when the variable is present by now) *)
    let ms2 := match obj_get n ms1 with
               | Some v => set_member n (coerce_j S v (vd_type vd)) ms1
               | None => ms1
               end in
    (* 3. defaults of input fields *)
    match obj_get n ms2 with
    | None => NOk ms2
    | Some v =>
      (* repaired code: a JSON string is not handed to processObjectOrListInput at all *)
      if negb (q_inject_reparse q) && (match v with JStr _ => true | _ => false end) then NOk ms2 else
      if is_scalar_or_enum S (vd_type vd) then NOk ms2 else
        match inject q S reparse (inject_budget S v) (vd_type vd) v with
        | IOk nv true => NOk (set_member n nv ms2)
        | IOk _ false => NOk ms2
        | IErr => NErr
        | IPanic => NPanic
        | IFuel => NFuel
        end
    end.

  Fixpoint normalise (vds : list vardef) (ms : list (bytes * json)) : nres :=
    match vds with
    | [] => NOk ms
    | vd :: r => match norm_var vd ms with NOk ms' => normalise r ms' | other => other end
    end.

  Definition pipeline (vds : list vardef) (vars : json) : presult :=
    match vars with
    | JObj ms =>
      match normalise vds ms with
      | NOk ms' => PDone (JObj ms') (validate q S (remap q vds) (JObj ms'))
      | NErr => PNormErr
      | NPanic => PPanic
      | NFuel => PFuel
      end
    | _ => PNormErr
    end.

  Definition accepts (vds : list vardef) (vars : json) : bool :=
    match pipeline vds vars with PDone _ None => true | _ => false end.
End Pipeline.
