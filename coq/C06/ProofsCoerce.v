(* C06: list coercion (inputCoercionForList) is exactly the specification's list rule:
   the strict reading of the coerced value = the full reading of the original value. *)
From Gv Require Import lib.Bytes lib.Json lib.Gql C06.Num C06.Model C06.Spec C06.ProofsBase.
From Coq Require Import List NArith Bool Lia ZifyN ZifyNat ZifyBool.
Import ListNotations.
Open Scope N_scope.

Definition coerce_named (S : schema) (j : json) (n : name) : json :=
  match j with
  | JObj ms =>
    match lookup S n with
    | Some td =>
      match td_kind td with
      | KInputObject =>
        JObj (map (fun kv => (fst kv, match find_ifield (fst kv) (td_input_fields td) with
                                      | Some f => coerce_j S (snd kv) (iv_type f)
                                      | None => snd kv
                                      end)) ms)
      | _ => j
      end
    | None => j
    end
  | _ => j
  end.

Lemma coerce_j_eq : forall S j t,
    coerce_j S j t =
    match strip_nonnull t with
    | TList t' =>
      match j with
      | JArr items => JArr (map (fun x => coerce_j S x t') items)
      | JNull => JNull
      | _ => wrap_n (list_depth t) (coerce_named S j (named_of t))
      end
    | TNamed n => coerce_named S j n
    | TNonNull _ => j
    end.
Proof.
  intros S j t.
  assert (Hobj : forall ms n, coerce_j S (JObj ms) (TNamed n) = coerce_named S (JObj ms) n).
  { intros ms n. unfold coerce_named. simpl.
    destruct (lookup S n) as [td|]; auto. destruct (td_kind td); auto.
    f_equal. induction ms as [|[k v] r IH]; simpl; auto. rewrite IH. auto. }
  destruct j as [|b|r|s|items|members]; simpl; destruct (strip_nonnull t) eqn:Est; try reflexivity.
  - (* object at named type *)
    specialize (Hobj members n). simpl in Hobj. exact Hobj.
  - (* object at list type: wrapped *)
    f_equal. specialize (Hobj members (named_of t)). simpl in Hobj. exact Hobj.
Qed.

Lemma strip_nonnull_not_nonnull : forall t t', strip_nonnull t <> TNonNull t'.
Proof. induction t; simpl; intros; try discriminate; auto. Qed.
Lemma list_depth_strip : forall t, list_depth (strip_nonnull t) = list_depth t.
Proof. induction t; simpl; auto. Qed.
Lemma named_of_strip : forall t, named_of (strip_nonnull t) = named_of t.
Proof. induction t; simpl; auto. Qed.
Lemma strip_strip : forall t, strip_nonnull (strip_nonnull t) = strip_nonnull t.
Proof. induction t; simpl; auto. Qed.

Lemma coerce_j_strip : forall S j t, coerce_j S j (strip_nonnull t) = coerce_j S j t.
Proof.
  intros. rewrite (coerce_j_eq S j (strip_nonnull t)), (coerce_j_eq S j t).
  rewrite strip_strip, list_depth_strip, named_of_strip. reflexivity.
Qed.

Lemma jnull_wrap_n : forall k v, jnull (wrap_n k v) = match k with O => jnull v | _ => false end.
Proof. destruct k; simpl; auto. Qed.

Lemma jnull_coerce_named : forall S j n, jnull (coerce_named S j n) = jnull j.
Proof.
  intros. unfold coerce_named. destruct j; auto.
  destruct (lookup S n) as [td|]; auto. destruct (td_kind td); auto.
Qed.

Lemma jnull_coerce_j : forall S j t, jnull (coerce_j S j t) = jnull j.
Proof.
  intros. rewrite coerce_j_eq. destruct (strip_nonnull t) eqn:E.
  - apply jnull_coerce_named.
  - destruct j; auto; rewrite jnull_wrap_n; destruct (list_depth t) eqn:El; auto;
      rewrite <- list_depth_strip, E in El; simpl in El; discriminate.
  - auto.
Qed.

(* for a present, non-null value the non-null wrappers of the type do not matter *)
Lemma coercible_j_strip : forall d S j t, jnull j = false -> coercible_j d S j t = coercible_j d S j (strip_nonnull t).
Proof.
  induction t; simpl; intros H; auto.
  rewrite coercible_j_eq. rewrite H. simpl. auto.
Qed.

Lemma forallb_ext' : forall A (f g : A -> bool) l, (forall x, f x = g x) -> forallb f l = forallb g l.
Proof. induction l; simpl; intros; auto. rewrite H, IHl; auto. Qed.
Lemma member_present_map : forall k (g : bytes * json -> json) ms,
    member_present k (map (fun kv => (fst kv, g kv)) ms) = member_present k ms.
Proof. intros. unfold member_present. induction ms; simpl; auto. rewrite IHms. reflexivity. Qed.

Section Coerce.
  Variables (dI dD : bool) (S : schema).
  Let ds := Build_dialect false dI dD.   (* strict *)
  Let dl := Build_dialect true dI dD.    (* with the list rule *)

  Definition main_at (j : json) : Prop := forall t, coercible_j ds S (coerce_j S j t) t = coercible_j dl S j t.
  Definition named_at (j : json) : Prop := forall n, coercible_j ds S (coerce_named S j n) (TNamed n) = coercible_j dl S j (TNamed n).

  (* outside objects the two dialects agree on named types *)
  Lemma named_coercible_flat : forall n j, (forall ms, j <> JObj ms) -> named_coercible ds S n j = named_coercible dl S n j.
  Proof.
    intros n j H. unfold named_coercible.
    destruct (find_type n (s_types S)) as [td|]; auto.
    destruct (td_kind td); auto.
    destruct j; auto. exfalso. eapply H; eauto.
  Qed.

  Lemma named_at_flat : forall j, (forall ms, j <> JObj ms) -> named_at j.
  Proof.
    intros j H n. assert (E : coerce_named S j n = j) by (destruct j; auto; exfalso; eapply H; eauto).
    rewrite E. rewrite !coercible_j_eq. destruct j; auto; apply named_coercible_flat; auto.
  Qed.

  Lemma named_at_obj : forall ms, Forall (fun kv => main_at (snd kv)) ms -> named_at (JObj ms).
  Proof.
    intros ms IH n. unfold coerce_named. rewrite (coercible_j_eq dl S (JObj ms) (TNamed n)).
    unfold lookup. unfold named_coercible at 1.
    destruct (find_type n (s_types S)) as [td|] eqn:Eft.
    2:{ rewrite coercible_j_eq. unfold named_coercible. rewrite Eft. auto. }
    destruct (td_kind td) eqn:Ek;
      try (rewrite coercible_j_eq; unfold named_coercible; rewrite Eft, Ek; reflexivity).
    rewrite coercible_j_eq. unfold named_coercible. rewrite Eft, Ek.
    set (fs := td_input_fields td).
    set (ms' := map (fun kv => (fst kv, match find_ifield (fst kv) fs with
                                        | Some f => coerce_j S (snd kv) (iv_type f)
                                        | None => snd kv end)) ms).
    assert (Hmem : members_ok ds S fs ms' = members_ok dl S fs ms).
    { unfold members_ok, ms'. clear ms'. induction ms as [|[k v] r IHr]; simpl; auto.
      inversion IH; subst. rewrite IHr; auto. f_equal.
      rewrite field_named_find_ifield. destruct (find_ifield k fs) as [f|]; auto; apply H1. }
    assert (Habs : absent_ok fs ms' = absent_ok fs ms).
    { unfold absent_ok. apply forallb_ext'. intros f. f_equal. unfold ms'. apply member_present_map. }
    assert (Hone : oneof_ok td ms' = oneof_ok td ms).
    { unfold oneof_ok. destruct (dirs_have sp_oneOf (td_dirs td)); auto.
      unfold ms'. destruct ms as [|[k v] [|kv2 r]]; simpl; auto.
      destruct (find_ifield k fs); auto. rewrite jnull_coerce_j. auto. }
    rewrite Hmem, Habs, Hone. reflexivity.
  Qed.

  (* a single value in a list position: wrapped to the full depth, then read strictly *)
  Lemma wrap_ok : forall j, jnull j = false -> (forall items, j <> JArr items) -> named_at j ->
                            forall t, coercible_j ds S (wrap_n (list_depth t) (coerce_named S j (named_of t))) t = coercible_j dl S j t.
  Proof.
    intros j Hnn Hna Hnamed. induction t as [n|t' IH|t' IH]; simpl.
    - apply Hnamed.
    - rewrite andb_true_r. rewrite IH.
      rewrite (coercible_j_eq dl S j (TList t')). destruct j; auto; try discriminate.
      exfalso. eapply Hna; eauto.
    - rewrite coercible_j_eq. rewrite jnull_wrap_n.
      rewrite (coercible_j_eq dl S j (TNonNull t')). rewrite Hnn.
      destruct (list_depth t'); [rewrite jnull_coerce_named, Hnn|]; simpl; apply IH.
  Qed.

  Lemma main_of_named : forall j, named_at j ->
                                  (forall items, j = JArr items -> Forall main_at items) ->
                                  main_at j.
  Proof.
    intros j Hnamed Harr t.
    destruct (jnull j) eqn:Hnn.
    { destruct j; try discriminate. rewrite coerce_j_eq.
      assert (E : match strip_nonnull t with
                  | TNamed n => coerce_named S JNull n
                  | TList _ => JNull
                  | TNonNull _ => JNull end = JNull) by (destruct (strip_nonnull t); auto).
      rewrite E. rewrite !coercible_j_null. auto. }
    rewrite (coercible_j_strip ds S _ t) by (rewrite jnull_coerce_j; auto).
    rewrite (coercible_j_strip dl S j t) by auto.
    rewrite <- (coerce_j_strip S j t).
    pose proof (strip_nonnull_not_nonnull t) as Hsn.
    pose proof (strip_strip t) as Hss.
    destruct (strip_nonnull t) as [n|t'|t'] eqn:Est; [| |exfalso; eapply Hsn; eauto].
    - rewrite coerce_j_eq. simpl. apply Hnamed.
    - rewrite coerce_j_eq. simpl.
      destruct j; try discriminate;
        try (apply (wrap_ok _ Hnn) with (t := TList t'); [intros; discriminate|auto]).
      (* array *)
      rewrite !coercible_j_eq. specialize (Harr items eq_refl).
      induction items as [|x r IH]; simpl; auto. inversion Harr; subst.
      rewrite IH; auto. f_equal. apply H1.
  Qed.

  Theorem coerce_correct_all : forall j, main_at j.
  Proof.
    induction j using json_ind'.
    - apply main_of_named; [apply named_at_flat; intros; discriminate | intros; discriminate].
    - apply main_of_named; [apply named_at_flat; intros; discriminate | intros; discriminate].
    - apply main_of_named; [apply named_at_flat; intros; discriminate | intros; discriminate].
    - apply main_of_named; [apply named_at_flat; intros; discriminate | intros; discriminate].
    - apply main_of_named; [apply named_at_flat; intros; discriminate |].
      intros items E. inversion E; subst. auto.
    - apply main_of_named; [apply named_at_obj; auto | intros; discriminate].
  Qed.
End Coerce.

(* inputCoercionForList followed by the strict reading = the specification's reading with the list rule *)
Theorem coerce_correct : forall dI dD S j t,
    coercible_j (Build_dialect false dI dD) S (coerce_j S j t) t = coercible_j (Build_dialect true dI dD) S j t.
Proof. intros. apply coerce_correct_all. Qed.
