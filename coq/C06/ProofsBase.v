(* C06: basic facts shared by the proof files: byte strings, JSON depth, key uniqueness, the unfolding
   equation of the specification. *)
From Gv Require Import lib.Bytes lib.Json lib.Gql C06.Num C06.Model C06.Spec.
From Coq Require Import List NArith Bool Lia ZifyN ZifyNat ZifyBool.
Import ListNotations.
Open Scope N_scope.

Lemma bytes_eqb_refl : forall a, bytes_eqb a a = true.
Proof. induction a; simpl; auto. rewrite N.eqb_refl; auto. Qed.

Lemma bytes_eqb_eq : forall a b, bytes_eqb a b = true <-> a = b.
Proof.
  induction a; destruct b; simpl; split; intros H; try congruence; auto.
  - apply andb_true_iff in H. destruct H as [H1 H2]. apply N.eqb_eq in H1. apply IHa in H2. congruence.
  - inversion H; subst. rewrite N.eqb_refl. simpl. apply bytes_eqb_refl.
Qed.

Lemma bytes_eqb_neq : forall a b, bytes_eqb a b = false <-> a <> b.
Proof.
  intros. split; intros H.
  - intros E. apply bytes_eqb_eq in E. congruence.
  - destruct (bytes_eqb a b) eqn:E; auto. apply bytes_eqb_eq in E. contradiction.
Qed.

Lemma bytes_eqb_sym : forall a b, bytes_eqb a b = bytes_eqb b a.
Proof.
  intros. destruct (bytes_eqb a b) eqn:E.
  - apply bytes_eqb_eq in E. subst. symmetry. apply bytes_eqb_refl.
  - symmetry. apply bytes_eqb_neq. apply bytes_eqb_neq in E. congruence.
Qed.

(* ---- depth ---- *)
Lemma jdepth_arr_in : forall items x, In x items -> (jdepth x < jdepth (JArr items))%nat.
Proof.
  intros items x Hin. simpl.
  induction items as [|y r IH]; simpl in *; [contradiction|].
  destruct Hin as [->|Hin]; [lia|]. specialize (IH Hin). lia.
Qed.

Lemma jdepth_obj_in : forall ms k v, In (k, v) ms -> (jdepth v < jdepth (JObj ms))%nat.
Proof.
  intros ms k v Hin. simpl.
  induction ms as [|[k' v'] r IH]; simpl in *; [contradiction|].
  destruct Hin as [E|Hin]; [inversion E; subst; lia|]. specialize (IH Hin). lia.
Qed.

Lemma obj_get_in : forall k ms v, obj_get k ms = Some v -> exists k', k' = k /\ In (k', v) ms.
Proof.
  induction ms as [|[k' v'] r IH]; simpl; intros v H; [discriminate|].
  destruct (bytes_eqb k k') eqn:E.
  - inversion H; subst. apply bytes_eqb_eq in E. subst. exists k'. auto.
  - destruct (IH _ H) as [k2 [E2 Hin]]. exists k2. auto.
Qed.

Lemma jdepth_obj_get : forall ms k v, obj_get k ms = Some v -> (jdepth v < jdepth (JObj ms))%nat.
Proof. intros. destruct (obj_get_in _ _ _ H) as [k' [_ Hin]]. eapply jdepth_obj_in; eauto. Qed.

(* ---- keys of a JSON object are pairwise different, everywhere in the value ---- *)
Fixpoint nodupb (l : list bytes) : bool :=
  match l with [] => true | x :: r => negb (mem_bytes x r) && nodupb r end.

Fixpoint json_nodup (j : json) : bool :=
  match j with
  | JArr l => (fix go (l : list json) : bool := match l with [] => true | x :: r => json_nodup x && go r end) l
  | JObj m => nodupb (map fst m)
              && (fix go (m : list (bytes * json)) : bool := match m with [] => true | kv :: r => json_nodup (snd kv) && go r end) m
  | _ => true
  end.

Lemma json_nodup_arr : forall l, json_nodup (JArr l) = forallb json_nodup l.
Proof. reflexivity. Qed.
Lemma json_nodup_obj : forall m, json_nodup (JObj m) = nodupb (map fst m) && forallb (fun kv => json_nodup (snd kv)) m.
Proof. reflexivity. Qed.

Lemma mem_bytes_in : forall x l, mem_bytes x l = true <-> In x l.
Proof.
  induction l; simpl; split; intros H; try discriminate; try contradiction.
  - apply orb_true_iff in H. destruct H as [H|H]; [left; apply bytes_eqb_eq in H; auto | right; apply IHl; auto].
  - apply orb_true_iff. destruct H as [->|H]; [left; apply bytes_eqb_refl | right; apply IHl; auto].
Qed.

Lemma nodupb_NoDup : forall l, nodupb l = true <-> NoDup l.
Proof.
  induction l; simpl; split; intros H.
  - constructor.
  - auto.
  - apply andb_true_iff in H. destruct H as [H1 H2]. constructor; [|apply IHl; auto].
    intros Hin. apply mem_bytes_in in Hin. rewrite Hin in H1. discriminate.
  - inversion H; subst. apply andb_true_iff. split; [|apply IHl; auto].
    destruct (mem_bytes a l) eqn:E; auto. apply mem_bytes_in in E. contradiction.
Qed.

(* with unique keys, membership and lookup coincide *)
Lemma obj_get_of_in : forall ms k v, NoDup (map fst ms) -> In (k, v) ms -> obj_get k ms = Some v.
Proof.
  induction ms as [|[k' v'] r IH]; simpl; intros k v Hnd Hin; [contradiction|].
  inversion Hnd; subst.
  destruct Hin as [E|Hin].
  - inversion E; subst. rewrite bytes_eqb_refl. auto.
  - destruct (bytes_eqb k k') eqn:E.
    + apply bytes_eqb_eq in E. subst. exfalso. apply H1. apply in_map_iff. exists (k', v). auto.
    + apply IH; auto.
Qed.

Lemma obj_get_none : forall ms k, obj_get k ms = None <-> ~ In k (map fst ms).
Proof.
  induction ms as [|[k' v'] r IH]; simpl; intros k; split; intros H; auto.
  - destruct (bytes_eqb k k') eqn:E; [discriminate|]. intros [E2|Hin].
    + subst. rewrite bytes_eqb_refl in E. discriminate.
    + apply IH in H. contradiction.
  - destruct (bytes_eqb k k') eqn:E.
    + apply bytes_eqb_eq in E. subst. exfalso. apply H. auto.
    + apply IH. intros Hin. apply H. auto.
Qed.

Lemma member_present_in : forall k ms, member_present k ms = true <-> In k (map fst ms).
Proof.
  intros. unfold member_present. rewrite existsb_exists. split.
  - intros [[k' v] [Hin E]]. simpl in E. apply bytes_eqb_eq in E. subst. apply in_map_iff. exists (k', v). auto.
  - intros Hin. apply in_map_iff in Hin. destruct Hin as [[k' v] [E Hin]]. simpl in E. subst.
    exists (k, v). split; auto. simpl. apply bytes_eqb_refl.
Qed.

(* ---- the model's and the specification's lookups ---- *)
Lemma field_named_find_ifield : forall k fs, field_named k fs = find_ifield k fs.
Proof. induction fs; simpl; auto. unfold field_named in *. simpl. destruct (bytes_eqb k (iv_name a)); auto. Qed.

Lemma find_ifield_some : forall k fs f, find_ifield k fs = Some f -> In f fs /\ iv_name f = k.
Proof.
  induction fs; simpl; intros f H; [discriminate|].
  destruct (bytes_eqb k (iv_name a)) eqn:E.
  - inversion H; subst. apply bytes_eqb_eq in E. auto.
  - destruct (IHfs _ H). auto.
Qed.

Lemma find_ifield_of_in : forall fs f, NoDup (map iv_name fs) -> In f fs -> find_ifield (iv_name f) fs = Some f.
Proof.
  induction fs; simpl; intros f Hnd Hin; [contradiction|].
  inversion Hnd; subst.
  destruct Hin as [->|Hin]; [rewrite bytes_eqb_refl; auto|].
  destruct (bytes_eqb (iv_name f) (iv_name a)) eqn:E.
  - apply bytes_eqb_eq in E. exfalso. apply H1. rewrite <- E. apply in_map. auto.
  - apply IHfs; auto.
Qed.

Lemma find_ifield_none : forall k fs, find_ifield k fs = None <-> ~ In k (map iv_name fs).
Proof.
  induction fs; simpl; split; intros H; auto.
  - destruct (bytes_eqb k (iv_name a)) eqn:E; [discriminate|]. intros [E2|Hin].
    + subst. rewrite bytes_eqb_refl in E. discriminate.
    + apply IHfs in H. contradiction.
  - destruct (bytes_eqb k (iv_name a)) eqn:E.
    + apply bytes_eqb_eq in E. subst. exfalso. apply H. auto.
    + apply IHfs. intros Hin. apply H. auto.
Qed.

Lemma has_dir_dirs_have : forall n ds, has_dir n ds = dirs_have n ds.
Proof. reflexivity. Qed.
Lemma has_default_field : forall f, has_default f = field_has_default f.
Proof. reflexivity. Qed.
Lemma is_null_jnull : forall j, is_null j = jnull j.
Proof. reflexivity. Qed.
Lemma is_nonnull_ty : forall t, is_nonnull t = ty_nonnull t.
Proof. reflexivity. Qed.

(* ---- the specification, unfolded once ---- *)
Definition members_ok (d : dialect) (S : schema) (fs : list inputvalue_def) (ms : list (bytes * json)) : bool :=
  forallb (fun kv => match field_named (fst kv) fs with
                     | Some f => coercible_j d S (snd kv) (iv_type f)
                     | None => false
                     end) ms.
Definition absent_ok (fs : list inputvalue_def) (ms : list (bytes * json)) : bool :=
  forallb (fun f => member_present (iv_name f) ms || absent_field_ok f) fs.
Definition oneof_ok (td : type_def) (ms : list (bytes * json)) : bool :=
  if dirs_have sp_oneOf (td_dirs td) then match ms with [(_, v)] => negb (jnull v) | _ => false end else true.

Definition named_coercible (d : dialect) (S : schema) (n : name) (j : json) : bool :=
  match find_type n (s_types S) with
  | None => true
  | Some td =>
    match td_kind td with
    | KScalar => scalar_coercible d n j
    | KEnum => enum_coercible (td_enum_values td) j
    | KInputObject =>
      match j with
      | JObj ms => members_ok d S (td_input_fields td) ms && absent_ok (td_input_fields td) ms && oneof_ok td ms
      | _ => false
      end
    | _ => true
    end
  end.

Lemma coercible_j_eq : forall d S j t,
  coercible_j d S j t =
  match t with
  | TNonNull t' => negb (jnull j) && coercible_j d S j t'
  | TList t' =>
    match j with
    | JNull => true
    | JArr items => forallb (fun x => coercible_j d S x t') items
    | _ => d_list_coercion d && coercible_j d S j t'
    end
  | TNamed n => match j with JNull => true | _ => named_coercible d S n j end
  end.
Proof.
  intros d S j t. destruct t as [n|t'|t']; destruct j; try reflexivity.
  unfold named_coercible, members_ok, absent_ok, oneof_ok. simpl.
  destruct (find_type n (s_types S)) as [td|]; [|reflexivity].
  destruct (td_kind td); try reflexivity.
  f_equal. f_equal.
  induction members as [|[k v] r IH]; simpl; auto. rewrite IH. reflexivity.
Qed.

Lemma coercible_j_null : forall d S t, coercible_j d S JNull t = negb (ty_nonnull t).
Proof. intros. destruct t; rewrite coercible_j_eq; auto. Qed.
