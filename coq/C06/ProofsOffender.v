(* C06: a reported (variable, path) is an offending position -- whatever error is pending at the end
   names a position of the variables JSON whose value does not coerce to the type at that position,
   even under the strictest reading.  (It need not be the FIRST offender: see Proofs.v.) *)
From Gv Require Import lib.Bytes lib.Json lib.Gql C06.Num C06.Model C06.Spec C06.ProofsBase C06.ProofsValidator.
From Coq Require Import List NArith Bool Lia ZifyN ZifyNat ZifyBool.
Import ListNotations.
Open Scope N_scope.

Definition step_of (i : pitem) : step := match i with PObj n => StField n | PArr k => StIndex k end.

Section Offender.
  Variable q : quirks.
  Variable S : schema.
  Variable var : name.
  Hypothesis Hfields : fields_nodup S = true.

  Definition sound_at (t : ty) (hd : bool) (oj : option json) (p : path) (e : verr) : Prop :=
    e_var e = var /\
    exists p', e_path e = p ++ p' /\
               exists t' hd' oj', resolve S (map step_of p') t hd oj = Some (t', hd', oj')
                                  /\ coercible std_strict S t' hd' oj' = false.

  Definition kos (st st' : vstate) (P : verr -> Prop) : Prop := st' = st \/ exists e, st' = Some e /\ P e.

  Lemma kos_refl : forall st P, kos st st P.
  Proof. left; auto. Qed.
  Lemma kos_new : forall st e (P : verr -> Prop), P e -> kos st (Some e) P.
  Proof. right; eauto. Qed.
  Lemma kos_trans : forall st st1 st2 (P : verr -> Prop), kos st st1 P -> kos st1 st2 P -> kos st st2 P.
  Proof.
    intros st st1 st2 P [->|[e [-> He]]] [->|[e2 [-> He2]]]; try (left; reflexivity); right; eauto.
  Qed.
  Lemma kos_weaken : forall st st' (P Q : verr -> Prop), (forall e, P e -> Q e) -> kos st st' P -> kos st st' Q.
  Proof. intros st st' P Q H [->|[e [-> He]]]; [left; auto|right; eauto]. Qed.

  Lemma sound_here : forall t hd oj p k,
      coercible std_strict S t hd oj = false -> sound_at t hd oj p {| e_var := var; e_path := p; e_kind := k |}.
  Proof.
    intros. split; auto. exists []. split; [simpl; rewrite app_nil_r; auto|].
    exists t, hd, oj. simpl. auto.
  Qed.

  Lemma resolve_nonnull : forall p t hd oj, p <> [] -> resolve S p (TNonNull t) hd oj = resolve S p t hd oj.
  Proof. destruct p as [|[k|i] r]; intros; try contradiction; reflexivity. Qed.

  Lemma sound_nonnull : forall t hd oj p e, sound_at t hd oj p e -> sound_at (TNonNull t) hd oj p e.
  Proof.
    intros t hd oj p e [Hv [p' [Hp [t' [hd' [oj' [Hr Hc]]]]]]]. split; auto. exists p'. split; auto.
    destruct p' as [|s r].
    - simpl in Hr. inversion Hr; subst. exists (TNonNull t'), hd', oj'. split; auto.
      destruct oj' as [j|]; simpl in *.
      + rewrite coercible_j_eq. rewrite Hc. apply andb_false_r.
      + apply orb_false_iff in Hc. destruct Hc as [-> _]. reflexivity.
    - exists t', hd', oj'. split; auto.
  Qed.

  Lemma sound_elem : forall t hd items k x p e,
      nth_error items k = Some x ->
      sound_at t false (Some x) (p ++ [PArr (N.of_nat k)]) e ->
      sound_at (TList t) hd (Some (JArr items)) p e.
  Proof.
    intros t hd items k x p e Hn [Hv [p' [Hp [t' [hd' [oj' [Hr Hc]]]]]]]. split; auto.
    exists (PArr (N.of_nat k) :: p'). split; [rewrite Hp, <- app_assoc; auto|].
    exists t', hd', oj'. split; auto. simpl. rewrite Nnat.Nat2N.id. rewrite Hn. exact Hr.
  Qed.

  Lemma sound_field : forall n td f hd ms p e,
      find_type n (s_types S) = Some td -> td_kind td = KInputObject -> In f (td_input_fields td) ->
      sound_at (iv_type f) (has_default f) (obj_get (iv_name f) ms) (p ++ [PObj (iv_name f)]) e ->
      sound_at (TNamed n) hd (Some (JObj ms)) p e.
  Proof.
    intros n td f hd ms p e Hft Hk Hin [Hv [p' [Hp [t' [hd' [oj' [Hr Hc]]]]]]]. split; auto.
    exists (PObj (iv_name f) :: p'). split; [rewrite Hp, <- app_assoc; auto|].
    exists t', hd', oj'. split; auto. simpl. rewrite Hft, Hk.
    rewrite field_named_find_ifield.
    destruct (find_type_in _ _ _ Hft) as [Htd _].
    assert (Hnd : NoDup (map iv_name (td_input_fields td))).
    { unfold fields_nodup in Hfields. rewrite forallb_forall in Hfields. apply nodupb_NoDup. auto. }
    rewrite (find_ifield_of_in _ f Hnd Hin). exact Hr.
  Qed.

  Lemma trav_elems_sound : forall (go : json -> path -> vstate -> vstate) items (Q : nat -> json -> verr -> Prop) i0 p st,
      (forall k x, nth_error items k = Some x -> forall st', kos st' (go x (p ++ [PArr (i0 + N.of_nat k)]) st') (Q k x)) ->
      kos st (trav_elems go items i0 p st) (fun e => exists k x, nth_error items k = Some x /\ Q k x e).
  Proof.
    induction items as [|y r IH]; intros Q i0 p st Hgo; simpl.
    - apply kos_refl.
    - eapply kos_trans.
      + eapply kos_weaken; [|apply (Hgo O y eq_refl st)].
        intros e He. exists O, y. split; auto.
      + replace (p ++ [PArr i0]) with (p ++ [PArr (i0 + N.of_nat 0)]) by (f_equal; f_equal; f_equal; lia).
        eapply kos_weaken; [|apply (IH (fun k x => Q (Datatypes.S k) x) (i0 + 1) p)].
        * intros e [k [x [Hn He]]]. exists (Datatypes.S k), x. split; auto.
        * intros k x Hn st'. replace (i0 + 1 + N.of_nat k) with (i0 + N.of_nat (Datatypes.S k)) by lia.
          apply (Hgo (Datatypes.S k) x Hn).
  Qed.

  (* the strict reading rejects whatever any quirk setting rejects at a built-in scalar *)
  Lemma scalar_ok_false_strict : forall n j, scalar_ok q n j = false -> scalar_coercible std_strict n j = false.
  Proof.
    intros n j H. rewrite scalar_ok_spec in H. unfold scalar_coercible in *. simpl in *.
    destruct (bytes_eqb n sp_Int); [destruct j; auto; apply orb_false_iff in H; tauto|].
    destruct (bytes_eqb n sp_Float); auto.
    destruct (bytes_eqb n sp_String); auto.
    destruct (bytes_eqb n sp_Boolean); auto.
    destruct (bytes_eqb n sp_ID); [destruct j; auto; apply orb_false_iff in H; tauto|auto].
  Qed.

  Lemma first_unknown_some : forall d fs ms k, first_unknown fs ms = Some k -> members_ok d S fs ms = false.
  Proof.
    induction ms as [|[k' v] r IH]; simpl; intros k H; [discriminate|].
    rewrite field_named_find_ifield.
    destruct (find_ifield k' fs); auto. rewrite (IH _ H). apply andb_false_r.
  Qed.

  Definition hd_of (f : inputvalue_def) (top : bool) : bool := has_default f && top.

  Lemma trav_field_sound : forall (named : name -> json -> path -> vstate -> vstate) f B,
      (forall n j p st hd, jnull j = false -> (jdepth j < B)%nat ->
                           kos st (named n j p st) (sound_at (TNamed n) hd (Some j) p)) ->
      forall t top oj p st,
        (forall j, oj = Some j -> (jdepth j < B)%nat) ->
        (oj = None -> top = true) ->
        kos st (trav_field q var named f top t oj p st) (sound_at t (hd_of f top) oj p).
  Proof.
    intros named f B Hnamed.
    induction t as [n|t' IH|t' IH]; intros top oj p st Hoj Htop.
    - simpl. destruct oj as [j|]; [|apply kos_refl].
      destruct j; try apply kos_refl; apply Hnamed; auto.
    - simpl. destruct oj as [j|]; [|apply kos_refl].
      destruct j; try apply kos_refl;
        try (unfold mk; apply kos_new; apply sound_here; reflexivity).
      eapply kos_weaken; [|apply (trav_elems_sound _ _ (fun k x => sound_at t' false (Some x) (p ++ [PArr (N.of_nat k)])))].
      + intros e [k [x [Hn He]]]. eapply sound_elem; eauto.
      + intros k x Hn st'. rewrite N.add_0_l.
        assert (Hin : In x items) by (eapply nth_error_In; eauto).
        pose proof (jdepth_arr_in _ _ Hin). specialize (Hoj _ eq_refl).
        specialize (IH false (Some x) (p ++ [PArr (N.of_nat k)]) st').
        unfold hd_of in IH. rewrite andb_false_r in IH. apply IH.
        * intros j E. inversion E; subst. lia.
        * discriminate.
    - simpl. destruct (absent_or_null oj) eqn:Han.
      + destruct (upload_direct t' && q_upload_exempt q); [apply kos_refl|].
        destruct (has_default f && default_excuses q top oj) eqn:Hde; [apply kos_refl|].
        (* the error is written, then the code falls into the recursive call *)
        eapply kos_trans.
        * unfold mk. apply kos_new. apply sound_here.
          destruct oj as [j|]; simpl in Han.
          -- destruct j; try discriminate. reflexivity.
          -- simpl. rewrite orb_false_r. unfold hd_of. rewrite (Htop eq_refl) in *.
             unfold default_excuses in Hde. rewrite !andb_true_r in *. exact Hde.
        * eapply kos_weaken; [|apply IH; auto]. intros e He. apply sound_nonnull. exact He.
      + destruct oj as [j|]; simpl in Han; [|discriminate].
        eapply kos_weaken; [|apply IH; auto].
        intros e He. apply sound_nonnull. exact He.
  Qed.

  Lemma trav_fields_sound : forall (named : name -> json -> path -> vstate -> vstate) (P : verr -> Prop) ms p fs,
      (forall f, In f fs -> forall st,
            kos st (trav_field q var named f true (iv_type f) (obj_get (iv_name f) ms) (p ++ [PObj (iv_name f)]) st) P) ->
      forall st, kos st (fst (trav_fields q var named fs ms p st)) P.
  Proof.
    induction fs as [|f r IH]; intros Hf st; simpl.
    - apply kos_refl.
    - destruct st as [e|]; simpl; [apply kos_refl|].
      eapply kos_trans; [apply (Hf f (or_introl eq_refl))|].
      apply IH. intros. apply Hf. right; auto.
  Qed.

  Lemma trav_named_sound : forall fuel n j p st hd,
      jnull j = false -> (jdepth j < fuel)%nat ->
      kos st (trav_named q S var fuel n j p st) (sound_at (TNamed n) hd (Some j) p).
  Proof.
    induction fuel as [|fuel IH]; intros n j p st hd Hnn Hd; [lia|].
    destruct st as [e|]; [destruct fuel; apply kos_refl|].
    assert (Hco : forall j', coercible std_strict S (TNamed n) hd (Some j') = coercible_j std_strict S j' (TNamed n)) by reflexivity.
    change (trav_named q S var (Datatypes.S fuel) n j p None) with
        (match lookup S n with
         | None => None
         | Some td =>
           match td_kind td with
           | KInputObject =>
             match j with
             | JObj ms =>
               let '(st1, early) := trav_fields q var (trav_named q S var fuel) (td_input_fields td) ms p None in
               if early then st1 else
                 match first_unknown (td_input_fields td) ms with
                 | Some k => mk var p (EUnknownField k n)
                 | None =>
                   if has_dir n_oneOf (td_dirs td) then
                     match ms with
                     | [(k, JNull)] => mk var p (EOneOfNull n k)
                     | [_] => st1
                     | _ => mk var p (EOneOfCount n (length ms))
                     end
                   else st1
                 end
             | _ => mk var p (ENotObject n)
             end
           | KScalar => if scalar_ok q n j then None else mk var p (EScalar n)
           | KEnum =>
             match j with
             | JStr s =>
               match enum_lookup s (td_enum_values td) with
               | Some false => None
               | _ => mk var p (EEnumValue n s)
               end
             | _ => mk var p (EEnumNonString n)
             end
           | _ => None
           end
         end).
    unfold lookup.
    destruct (find_type n (s_types S)) as [td|] eqn:Eft; [|apply kos_refl].
    assert (Hnc : forall j', jnull j' = false ->
                             coercible_j std_strict S j' (TNamed n) = named_coercible std_strict S n j').
    { intros j' H. rewrite coercible_j_eq. destruct j'; auto; discriminate. }
    destruct (td_kind td) eqn:Ek; try apply kos_refl.
    - (* scalar *)
      destruct (scalar_ok q n j) eqn:Es; [apply kos_refl|].
      unfold mk. apply kos_new. apply sound_here. rewrite Hco, Hnc by auto.
      unfold named_coercible. rewrite Eft, Ek. apply scalar_ok_false_strict. auto.
    - (* enum *)
      assert (Hbad : coercible std_strict S (TNamed n) hd (Some j) = false ->
                     forall k, kos None (mk var p k) (sound_at (TNamed n) hd (Some j) p)).
      { intros H k. unfold mk. apply kos_new. apply sound_here. auto. }
      destruct j; try (apply Hbad; rewrite Hco, Hnc by auto; unfold named_coercible; rewrite Eft, Ek; reflexivity);
        try discriminate.
      pose proof (enum_lookup_spec s (td_enum_values td)) as Hes.
      destruct (enum_lookup s (td_enum_values td)) as [[|]|]; try apply kos_refl;
        apply Hbad; rewrite Hco, Hnc by auto; unfold named_coercible; rewrite Eft, Ek; unfold enum_coercible; rewrite <- Hes; reflexivity.
    - (* input object *)
      assert (Hbad : coercible std_strict S (TNamed n) hd (Some j) = false ->
                     forall k, kos None (mk var p k) (sound_at (TNamed n) hd (Some j) p)).
      { intros H k. unfold mk. apply kos_new. apply sound_here. auto. }
      destruct j as [| | | |items|ms];
        try (apply Hbad; rewrite Hco, Hnc by auto; unfold named_coercible; rewrite Eft, Ek; reflexivity);
        try discriminate.
      assert (Hfs : forall st, kos st (fst (trav_fields q var (trav_named q S var fuel) (td_input_fields td) ms p st))
                               (sound_at (TNamed n) hd (Some (JObj ms)) p)).
      { apply trav_fields_sound. intros f Hinf st.
        eapply kos_weaken; [|apply (trav_field_sound (trav_named q S var fuel) f fuel)].
        - intros e He. unfold hd_of in He. rewrite andb_true_r in He. eapply sound_field; eauto.
        - intros n' j' p' st' hd' H1 H2. apply IH; auto.
        - intros j' E. destruct (obj_get_in _ _ _ E) as [k' [_ Hin]].
          pose proof (jdepth_obj_in _ _ _ Hin). lia.
        - auto. }
      specialize (Hfs None).
      destruct (trav_fields q var (trav_named q S var fuel) (td_input_fields td) ms p None) as [st1 early].
      simpl in Hfs.
      destruct early; auto.
      assert (Hobj : named_coercible std_strict S n (JObj ms)
                     = members_ok std_strict S (td_input_fields td) ms && absent_ok (td_input_fields td) ms && oneof_ok td ms).
      { unfold named_coercible. rewrite Eft, Ek. reflexivity. }
      destruct (first_unknown (td_input_fields td) ms) as [k|] eqn:Efu.
      + apply Hbad. rewrite Hco, Hnc, Hobj by auto. rewrite (first_unknown_some _ _ _ _ Efu). reflexivity.
      + rewrite has_dir_dirs_have. change n_oneOf with sp_oneOf.
        destruct (dirs_have sp_oneOf (td_dirs td)) eqn:Eo; auto.
        assert (Hone : forall k, oneof_ok td ms = false -> kos None (mk var p k) (sound_at (TNamed n) hd (Some (JObj ms)) p)).
        { intros k H. apply Hbad. rewrite Hco, Hnc, Hobj by auto. rewrite H. apply andb_false_r. }
        destruct ms as [|[k v] [|kv2 r]].
        * apply Hone. unfold oneof_ok. rewrite Eo. reflexivity.
        * destruct v; auto. apply Hone. unfold oneof_ok. rewrite Eo. reflexivity.
        * destruct v; apply Hone; unfold oneof_ok; rewrite Eo; reflexivity.
  Qed.

  Lemma trav_op_sound : forall (named : name -> json -> path -> vstate -> vstate) B,
      (forall n j p st hd, jnull j = false -> (jdepth j < B)%nat ->
                           kos st (named n j p st) (sound_at (TNamed n) hd (Some j) p)) ->
      forall t oj p st,
        (forall j, oj = Some j -> (jdepth j < B)%nat) ->
        kos st (trav_op q var named t oj p st) (sound_at t false oj p).
  Proof.
    intros named B Hnamed.
    induction t as [n|t' IH|t' IH]; intros oj p st Hoj.
    - simpl. destruct oj as [j|]; [|apply kos_refl].
      destruct j; try apply kos_refl; apply Hnamed; auto.
    - simpl. destruct oj as [j|]; [|apply kos_refl].
      destruct j; try apply kos_refl;
        try (unfold mk; apply kos_new; apply sound_here; reflexivity).
      eapply kos_weaken; [|apply (trav_elems_sound _ _ (fun k x => sound_at t' false (Some x) (p ++ [PArr (N.of_nat k)])))].
      + intros e [k [x [Hn He]]]. eapply sound_elem; eauto.
      + intros k x Hn st'. rewrite N.add_0_l.
        assert (Hin : In x items) by (eapply nth_error_In; eauto).
        pose proof (jdepth_arr_in _ _ Hin). specialize (Hoj _ eq_refl).
        apply IH. intros j E. inversion E; subst. lia.
    - simpl. destruct oj as [j|].
      + destruct (is_null j && negb (q_upload_exempt q && bytes_eqb (named_of t') n_Upload)) eqn:En.
        * unfold mk. apply kos_new. apply sound_here. simpl. rewrite coercible_j_eq.
          apply andb_true_iff in En. destruct En as [En _]. change (jnull j) with (is_null j). rewrite En. reflexivity.
        * eapply kos_weaken; [|apply IH; auto]. intros e He. apply sound_nonnull. exact He.
      + unfold mk. apply kos_new. apply sound_here. reflexivity.
  Qed.
End Offender.

(* Whatever error the validator ends with names an offending position: a declared variable and a path that
   exists in the variables JSON, where the value (or its absence) does not coerce to the type found
   there -- under the strictest reading, hence under every quirk setting. *)
Theorem validate_error_offending : forall q S vds vars e,
    fields_nodup S = true ->
    validate q S vds vars = Some e ->
    exists vd p, In vd vds /\ e_var e = vd_name vd /\ e_path e = PObj (vd_name vd) :: p /\
                 exists t hd oj, resolve S (map step_of p) (vd_type vd) false (jget (vd_name vd) vars) = Some (t, hd, oj)
                                 /\ coercible std_strict S t hd oj = false.
Proof.
  intros q S vds vars e Hf. unfold validate, validate_fuel.
  set (fuel := Datatypes.S (jdepth vars)).
  assert (Hgen : forall l st,
             (forall vd, In vd l -> In vd vds) ->
             kos st (fold_left (validate_var q S fuel vars) l st)
                 (fun e => exists vd, In vd vds /\ sound_at S (vd_name vd) (vd_type vd) false (jget (vd_name vd) vars) [PObj (vd_name vd)] e)).
  { induction l as [|vd r IH]; intros st Hl; simpl.
    - apply kos_refl.
    - eapply kos_trans; [|apply IH; intros; apply Hl; right; auto].
      unfold validate_var.
      eapply kos_weaken; [|apply (trav_op_sound q S (vd_name vd) Hf (trav_named q S (vd_name vd) fuel) fuel)].
      + intros e' He. exists vd. split; auto. apply Hl. left; auto.
      + intros. apply trav_named_sound; auto.
      + intros j E. pose proof (jdepth_jget _ _ _ E). unfold fuel. lia. }
  intros H. destruct (Hgen vds None (fun _ h => h)) as [E|[e' [E [vd [Hin [Hv [p' [Hp [t [hd [oj [Hr Hc]]]]]]]]]]]].
  - rewrite H in E. discriminate.
  - rewrite H in E. inversion E; subst. exists vd, p'. repeat split; auto. exists t, hd, oj. auto.
Qed.
