(* C06: with content exposure disabled, every name an error carries (and so every name its message
   prints) is a name of the operation or of the schema -- except for errors of kind EUnknownField,
   whose first component is the client's key.  Also: the validator never runs out of fuel. *)
From Gv Require Import lib.Bytes lib.Json lib.Gql C06.Num C06.Model C06.Spec C06.ProofsBase C06.ProofsValidator C06.ProofsOffender.
From Coq Require Import List NArith Bool Lia ZifyN ZifyNat ZifyBool.
Import ListNotations.
Open Scope N_scope.

Fixpoint path_names (p : path) : list name :=
  match p with [] => [] | PObj n :: r => n :: path_names r | PArr _ :: r => path_names r end.

Definition kind_names (k : ekind) : list name :=
  match k with
  | EVarRequired t | EVarNull t => [named_of t]
  | ENotObject tn | EScalar tn | EWantList tn | EEnumNonString tn => [tn]
  | EFieldRequired fn t => [fn; named_of t]
  | EUnknownField key tn => [key; tn]
  | EEnumValue tn _ => [tn]           (* the client's value is not printed when exposure is off *)
  | EOneOfCount tn _ => [tn]
  | EOneOfNull tn fn => [tn; fn]
  | EOutOfFuel => []
  end.
(* every name the message of [e] contains *)
Definition err_names (e : verr) : list name := e_var e :: path_names (e_path e) ++ kind_names (e_kind e).

Definition is_unknown_field (k : ekind) : bool := match k with EUnknownField _ _ => true | _ => false end.

(* the message does not depend on the client's enum value *)
Definition forget_value (e : verr) : verr :=
  match e_kind e with
  | EEnumValue tn _ => {| e_var := e_var e; e_path := e_path e; e_kind := EEnumValue tn [] |}
  | _ => e
  end.
Lemma render_msg_forget : forall e, render_msg e = render_msg (forget_value e).
Proof. intros [v p k]. destruct k; reflexivity. Qed.

Lemma path_names_app : forall p r, path_names (p ++ r) = path_names p ++ path_names r.
Proof. induction p as [|[n|i] p IH]; simpl; intros; auto. rewrite IH. auto. Qed.

Section Echo.
  Variable q : quirks.
  Variable S : schema.
  Variable vds : list vardef.
  Variable var : name.
  Let known (n : name) : Prop := In n (schema_names S vds).
  Hypothesis Hvar : known var.

  Definition good (e : verr) : Prop :=
    e_kind e <> EOutOfFuel /\ (is_unknown_field (e_kind e) = true \/ Forall known (err_names e)).

  Lemma known_type : forall td, In td (s_types S) -> known (td_name td).
  Proof.
    intros td H. unfold known, schema_names. apply in_or_app. right. apply in_flat_map. exists td. split; auto. left; auto.
  Qed.
  Lemma known_field : forall td f, In td (s_types S) -> In f (td_input_fields td) -> known (iv_name f) /\ known (named_of (iv_type f)).
  Proof.
    intros td f H1 H2. unfold known, schema_names. split; apply in_or_app; right; apply in_flat_map; exists td; split; auto;
      right; apply in_flat_map; exists f; split; auto; simpl; auto.
  Qed.

  Lemma good_mk : forall p k, Forall known (path_names p) -> Forall known (kind_names k) -> k <> EOutOfFuel ->
                              good {| e_var := var; e_path := p; e_kind := k |}.
  Proof.
    intros p k Hp Hk Hne. split; auto. right. unfold err_names. simpl. constructor; auto.
    apply Forall_app. auto.
  Qed.

  Lemma trav_elems_kos : forall (go : json -> path -> vstate -> vstate) (P : verr -> Prop) items i p st,
      (forall x, In x items -> forall i' st', kos st' (go x (p ++ [PArr i']) st') P) ->
      kos st (trav_elems go items i p st) P.
  Proof.
    induction items as [|x r IH]; intros i p st Hgo; simpl.
    - apply kos_refl.
    - eapply kos_trans; [apply Hgo; left; auto|]. apply IH. intros. apply Hgo. right; auto.
  Qed.

  Lemma path_names_arr : forall p i, path_names (p ++ [PArr i]) = path_names p.
  Proof. intros. rewrite path_names_app. simpl. apply app_nil_r. Qed.

  Lemma trav_field_good : forall (named : name -> json -> path -> vstate -> vstate) f B,
      known (iv_name f) ->
      (forall n j p st, known n -> Forall known (path_names p) -> (jdepth j < B)%nat -> kos st (named n j p st) good) ->
      forall t top oj p st,
        known (named_of t) -> Forall known (path_names p) ->
        (forall j, oj = Some j -> (jdepth j < B)%nat) ->
        kos st (trav_field q var named f top t oj p st) good.
  Proof.
    intros named f B Hfn Hnamed.
    induction t as [n|t' IH|t' IH]; intros top oj p st Hk Hp Hoj.
    - simpl. destruct oj as [j|]; [|apply kos_refl].
      destruct j; try apply kos_refl; apply Hnamed; auto.
    - simpl. destruct oj as [j|]; [|apply kos_refl].
      destruct j; try apply kos_refl;
        try (unfold mk; apply kos_new; apply good_mk; auto; [constructor; auto | discriminate]).
      apply trav_elems_kos. intros x Hin i' st'. apply IH; auto.
      + rewrite path_names_arr. auto.
      + intros j E. inversion E; subst. pose proof (jdepth_arr_in _ _ Hin). specialize (Hoj _ eq_refl). lia.
    - simpl. destruct (absent_or_null oj).
      + destruct (upload_direct t' && q_upload_exempt q); [apply kos_refl|].
        destruct (has_default f && default_excuses q top oj); [apply kos_refl|].
        eapply kos_trans; [|apply IH; auto].
        unfold mk. apply kos_new. apply good_mk; auto; [|discriminate].
        simpl. constructor; auto.
      + apply IH; auto.
  Qed.

  Lemma trav_fields_kos : forall (named : name -> json -> path -> vstate -> vstate) (P : verr -> Prop) ms p fs,
      (forall f, In f fs -> forall st,
            kos st (trav_field q var named f true (iv_type f) (obj_get (iv_name f) ms) (p ++ [PObj (iv_name f)]) st) P) ->
      forall st, kos st (fst (trav_fields q var named fs ms p st)) P.
  Proof.
    induction fs as [|f r IH]; intros Hf st; simpl.
    - apply kos_refl.
    - destruct st as [e|]; simpl; [apply kos_refl|].
      eapply kos_trans; [apply (Hf f (or_introl eq_refl))|].
      apply IH. intros. apply Hf. right; auto.
  Qed.

  Lemma trav_named_good : forall fuel n j p st,
      known n -> Forall known (path_names p) -> (jdepth j < fuel)%nat ->
      kos st (trav_named q S var fuel n j p st) good.
  Proof.
    induction fuel as [|fuel IH]; intros n j p st Hn Hp Hd; [lia|].
    destruct st as [e|]; [destruct fuel; apply kos_refl|].
    change (trav_named q S var (Datatypes.S fuel) n j p None) with
        (match lookup S n with
         | None => None
         | Some td =>
           match td_kind td with
           | KInputObject =>
             match j with
             | JObj ms =>
               let '(st1, early) := trav_fields q var (trav_named q S var fuel) (td_input_fields td) ms p None in
               if early then st1 else
                 match first_unknown (td_input_fields td) ms with
                 | Some k => mk var p (EUnknownField k n)
                 | None =>
                   if has_dir n_oneOf (td_dirs td) then
                     match ms with
                     | [(k, JNull)] => mk var p (EOneOfNull n k)
                     | [_] => st1
                     | _ => mk var p (EOneOfCount n (length ms))
                     end
                   else st1
                 end
             | _ => mk var p (ENotObject n)
             end
           | KScalar => if scalar_ok q n j then None else mk var p (EScalar n)
           | KEnum =>
             match j with
             | JStr s =>
               match enum_lookup s (td_enum_values td) with
               | Some false => None
               | _ => mk var p (EEnumValue n s)
               end
             | _ => mk var p (EEnumNonString n)
             end
           | _ => None
           end
         end).
    unfold lookup.
    destruct (find_type n (s_types S)) as [td|] eqn:Eft; [|apply kos_refl].
    destruct (find_type_in _ _ _ Eft) as [Htd _].
    assert (Hone : forall k, Forall known (kind_names k) -> k <> EOutOfFuel -> kos None (mk var p k) good).
    { intros k H1 H2. unfold mk. apply kos_new. apply good_mk; auto. }
    assert (Hn1 : Forall known [n]) by (constructor; auto).
    destruct (td_kind td) eqn:Ek; try apply kos_refl.
    - destruct (scalar_ok q n j); [apply kos_refl|]. apply Hone; auto. discriminate.
    - destruct j; try (apply Hone; auto; discriminate).
      destruct (enum_lookup s (td_enum_values td)) as [[|]|]; try apply kos_refl; apply Hone; auto; discriminate.
    - destruct j as [| | | |items|ms]; try (apply Hone; auto; discriminate).
      assert (Hfs : forall st, kos st (fst (trav_fields q var (trav_named q S var fuel) (td_input_fields td) ms p st)) good).
      { apply trav_fields_kos. intros f Hinf st.
        destruct (known_field td f Htd Hinf) as [Hk1 Hk2].
        apply (trav_field_good (trav_named q S var fuel) f fuel); auto.
        - rewrite path_names_app. simpl. apply Forall_app. split; auto.
        - intros j' E. destruct (obj_get_in _ _ _ E) as [k' [_ Hin]].
          pose proof (jdepth_obj_in _ _ _ Hin). lia. }
      specialize (Hfs None).
      destruct (trav_fields q var (trav_named q S var fuel) (td_input_fields td) ms p None) as [st1 early].
      simpl in Hfs. destruct early; auto.
      destruct (first_unknown (td_input_fields td) ms) as [k|] eqn:Efu.
      + unfold mk. apply kos_new. split; [discriminate|]. left. reflexivity.
      + destruct (has_dir n_oneOf (td_dirs td)); auto.
        destruct ms as [|[k v] [|kv2 r]].
        * apply Hone; auto. discriminate.
        * destruct v; auto. apply Hone; [|discriminate].
          simpl. constructor; auto. constructor; auto.
          (* the key passed the unknown-field check: it is a field of the type *)
          simpl in Efu. destruct (find_ifield k (td_input_fields td)) as [f|] eqn:Ef; [|discriminate].
          destruct (find_ifield_some _ _ _ Ef) as [Hinf <-]. apply (known_field td f Htd Hinf).
        * destruct v; apply Hone; auto; discriminate.
  Qed.

  Lemma trav_op_good : forall (named : name -> json -> path -> vstate -> vstate) B,
      (forall n j p st, known n -> Forall known (path_names p) -> (jdepth j < B)%nat -> kos st (named n j p st) good) ->
      forall t oj p st,
        known (named_of t) -> Forall known (path_names p) ->
        (forall j, oj = Some j -> (jdepth j < B)%nat) ->
        kos st (trav_op q var named t oj p st) good.
  Proof.
    intros named B Hnamed.
    induction t as [n|t' IH|t' IH]; intros oj p st Hk Hp Hoj.
    - simpl. destruct oj as [j|]; [|apply kos_refl].
      destruct j; try apply kos_refl; apply Hnamed; auto.
    - simpl. destruct oj as [j|]; [|apply kos_refl].
      destruct j; try apply kos_refl;
        try (unfold mk; apply kos_new; apply good_mk; auto; [constructor; auto | discriminate]).
      apply trav_elems_kos. intros x Hin i' st'. apply IH; auto.
      + rewrite path_names_arr. auto.
      + intros j E. inversion E; subst. pose proof (jdepth_arr_in _ _ Hin). specialize (Hoj _ eq_refl). lia.
    - simpl. destruct oj as [j|].
      + destruct (is_null j && negb (q_upload_exempt q && bytes_eqb (named_of t') n_Upload)).
        * unfold mk. apply kos_new. apply good_mk; auto; [constructor; auto | discriminate].
        * apply IH; auto.
      + unfold mk. apply kos_new. apply good_mk; auto; [constructor; auto | discriminate].
  Qed.
End Echo.

Theorem validate_error_good : forall q S vds vars e,
    validate q S vds vars = Some e ->
    e_kind e <> EOutOfFuel
    /\ (is_unknown_field (e_kind e) = true \/ Forall (fun n => In n (schema_names S vds)) (err_names e)).
Proof.
  intros q S vds vars e. unfold validate, validate_fuel.
  set (fuel := Datatypes.S (jdepth vars)).
  assert (Hgen : forall l st, (forall vd, In vd l -> In vd vds) ->
                              kos st (fold_left (validate_var q S fuel vars) l st)
                                  (good S vds)).
  { induction l as [|vd r IH]; intros st Hl; simpl.
    - apply kos_refl.
    - eapply kos_trans; [|apply IH; intros; apply Hl; right; auto].
      unfold validate_var.
      assert (Hin : In vd vds) by (apply Hl; left; auto).
      assert (Hkv : In (vd_name vd) (schema_names S vds) /\ In (named_of (vd_type vd)) (schema_names S vds)).
      { unfold schema_names. split; apply in_or_app; left; apply in_flat_map; exists vd; simpl; auto. }
      destruct Hkv as [Hk1 Hk2].
      eapply kos_weaken; [|apply (trav_op_good q S vds (vd_name vd) Hk1 (trav_named q S (vd_name vd) fuel) fuel)].
      + intros e' He. exact He.
      + intros. apply trav_named_good; auto.
      + exact Hk2.
      + simpl. constructor; auto.
      + intros j E. pose proof (jdepth_jget _ _ _ E). unfold fuel. lia. }
  intros H. destruct (Hgen vds None (fun _ h => h)) as [E|[e' [E [H1 H2]]]].
  - rewrite H in E. discriminate.
  - rewrite H in E. inversion E; subst. split; auto.
Qed.
