(* C06: predicates on raw JSON number tokens (lib/Json keeps the token).  Shared by the spec and by the
   "repaired" branches of the model (the branches the real code does not have; see Model.quirks). *)
From Gv Require Import lib.Bytes.
From Coq Require Import ZArith.
Open Scope N_scope.

(* token = '-'? digit+  (no fraction, no exponent): the syntactic reading of "integer input value" *)
Definition strip_minus (raw : bytes) : bool * bytes :=
  match raw with 45 :: r => (true, r) | _ => (false, raw) end.
Definition all_digits (l : bytes) : bool :=
  match l with [] => false | _ => forallb is_digit l end.
Definition num_is_integer (raw : bytes) : bool := all_digits (snd (strip_minus raw)).
Definition num_int_value (raw : bytes) : Z :=
  let '(neg, ds) := strip_minus raw in
  let v := Z.of_N (dec_value ds) in if neg then Z.opp v else v.
(* GraphQL Int: an integer in [-2^31, 2^31) *)
Definition num_is_int32 (raw : bytes) : bool :=
  num_is_integer raw &&
  (Z.leb (-2147483648)%Z (num_int_value raw) && Z.ltb (num_int_value raw) 2147483648%Z).
