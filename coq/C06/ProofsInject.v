(* C06: default injection (inject_input_default_values.go, as repaired: fixed: inject-defaults-index-drift,
   inject-defaults-enum-ref, inject-defaults-string-reparsed) is neutral for the specification on EVERY value:
   what it returns coerces exactly when its input does, keys stay unique, null stays null; and when it
   stops with an error the value does not coerce (so rejecting the request is right). *)
From Gv Require Import lib.Bytes lib.Json lib.Gql C06.Num C06.Model C06.Spec C06.ProofsBase C06.ProofsValidator C06.ProofsCoerce C06.ProofsPipeline.
From Coq Require Import List NArith Bool Lia ZifyN ZifyNat ZifyBool.
Import ListNotations.
Open Scope N_scope.

Definition is_obj (j : json) : bool := match j with JObj _ => true | _ => false end.

(* ------------------------------------------------------------------ list facts *)
Lemma set_member_absent : forall k v ms, ~ In k (map fst ms) -> set_member k v ms = ms ++ [(k, v)].
Proof.
  induction ms as [|[k' v'] r IH]; simpl; intros H; auto.
  destruct (bytes_eqb k k') eqn:E.
  - apply bytes_eqb_eq in E. subst. exfalso. apply H. auto.
  - rewrite IH; auto.
Qed.

Lemma set_nth_app : forall pre x r nv, set_nth (length pre) nv (pre ++ x :: r) = pre ++ nv :: r.
Proof. induction pre; simpl; intros; auto. rewrite IHpre. auto. Qed.

Lemma forallb_app' : forall A (f : A -> bool) l1 l2, forallb f (l1 ++ l2) = forallb f l1 && forallb f l2.
Proof. induction l1; simpl; intros; auto. rewrite IHl1. apply andb_assoc. Qed.

Lemma member_present_app : forall k ms k' v, member_present k (ms ++ [(k', v)]) = member_present k ms || bytes_eqb k k'.
Proof.
  intros. unfold member_present. induction ms as [|kv r IH]; simpl; [apply orb_false_r|].
  rewrite IH. apply orb_assoc.
Qed.

Lemma forallb_ext_in : forall A (f g : A -> bool) l, (forall x, In x l -> f x = g x) -> forallb f l = forallb g l.
Proof. induction l; simpl; intros; auto. rewrite H, IHl; auto. Qed.

Lemma NoDup_app_single : forall (A : Type) (l : list A) x, NoDup l -> ~ In x l -> NoDup (l ++ [x]).
Proof.
  induction l; simpl; intros x Hn Hx.
  - constructor; auto.
  - inversion Hn; subst. constructor.
    + intros Hin. apply in_app_or in Hin. destruct Hin as [Hin|[E|[]]]; [contradiction|]. subst. apply Hx. auto.
    + apply IHl; auto.
Qed.

Lemma member_present_set_present : forall k k0 v ms, In k0 (map fst ms) -> member_present k (set_member k0 v ms) = member_present k ms.
Proof.
  intros k k0 v ms H. unfold member_present.
  induction ms as [|[k' v'] r IH]; simpl in *; [contradiction|].
  destruct (bytes_eqb k0 k') eqn:E; simpl; auto.
  rewrite IH; auto. destruct H as [H|H]; auto. subst. rewrite bytes_eqb_refl in E. discriminate.
Qed.

Section InjectProof.
  Variable d : dialect.
  Variable S : schema.
  Variable reparse : bytes -> option json.
  (* any quirk setting in which the three causes of default injection are repaired *)
  Variable q : quirks.
  Hypothesis Hq_drift : q_inject_drift q = false.
  Hypothesis Hq_kind : q_inject_kind q = false.
  Hypothesis Hq_rep : q_inject_reparse q = false.

  Hypothesis Hfields : fields_nodup S = true.
  (* defaults in the schema are valid values of their field's type (GraphQL schema validity) *)
  Definition field_default_ok (f : inputvalue_def) : bool :=
    match iv_default f with
    | None => true
    | Some dv => json_nodup (value_to_json dv) && coercible_j d S (value_to_json dv) (iv_type f)
    end.
  Definition field_defaults_ok : bool :=
    forallb (fun td => forallb field_default_ok (td_input_fields td)) (s_types S).
  (* OneOf input objects have no defaults (GraphQL schema validity) *)
  Definition oneof_no_defaults : bool :=
    forallb (fun td => negb (dirs_have sp_oneOf (td_dirs td)) || forallb (fun f => negb (has_default f)) (td_input_fields td)) (s_types S).
  Hypothesis Hdefs : field_defaults_ok = true.
  Hypothesis Honeof : oneof_no_defaults = true.

  (* what a call of processObjectOrListInput on [u] at type [t] may return *)
  Definition good_res (u : json) (t : ty) (r : ires) : Prop :=
    match r with
    | IOk nv _ => coercible_j d S nv t = coercible_j d S u t /\ json_nodup nv = true /\ jnull nv = jnull u
    | IErr => coercible_j d S u t = false
    | IFuel => True
    | IPanic => False
    end.

  Definition rel (t : ty) (x x' : json) : Prop :=
    coercible_j d S x' t = coercible_j d S x t /\ json_nodup x' = true /\ jnull x' = jnull x.

  Section Parts.
    Variable inj : ty -> json -> ires.
    Hypothesis Hinj : forall t u, json_nodup u = true -> good_res u t (inj t u).

    Variable td : type_def.
    Hypothesis Htd : In td (s_types S).
    Let fs0 := td_input_fields td.

    Lemma fs0_nodup : NoDup (map iv_name fs0).
    Proof. unfold fields_nodup in Hfields. rewrite forallb_forall in Hfields. apply nodupb_NoDup. apply Hfields. auto. Qed.

    Lemma field_default_of : forall f dv, In f fs0 -> iv_default f = Some dv ->
        json_nodup (value_to_json dv) = true /\ coercible_j d S (value_to_json dv) (iv_type f) = true
        /\ dirs_have sp_oneOf (td_dirs td) = false.
    Proof.
      intros f dv Hin Hd.
      unfold field_defaults_ok in Hdefs. rewrite forallb_forall in Hdefs. specialize (Hdefs td Htd).
      rewrite forallb_forall in Hdefs. specialize (Hdefs f Hin). unfold field_default_ok in Hdefs. rewrite Hd in Hdefs.
      apply andb_true_iff in Hdefs. destruct Hdefs as [H1 H2].
      repeat split; auto.
      unfold oneof_no_defaults in Honeof. rewrite forallb_forall in Honeof. specialize (Honeof td Htd).
      destruct (dirs_have sp_oneOf (td_dirs td)); auto. simpl in Honeof.
      rewrite forallb_forall in Honeof. specialize (Honeof f Hin). unfold has_default in Honeof. rewrite Hd in Honeof. discriminate.
    Qed.

    Definition obj_ok (ms : list (bytes * json)) : bool := members_ok d S fs0 ms && absent_ok fs0 ms && oneof_ok td ms.

    Lemma members_ok_append : forall ms f v,
        In f fs0 -> coercible_j d S v (iv_type f) = true ->
        members_ok d S fs0 (ms ++ [(iv_name f, v)]) = members_ok d S fs0 ms.
    Proof.
      intros ms f v Hin Hc. unfold members_ok. rewrite forallb_app'. simpl.
      rewrite field_named_find_ifield. rewrite (find_ifield_of_in fs0 f fs0_nodup Hin). rewrite Hc. simpl. apply andb_true_r.
    Qed.

    Lemma members_ok_bad : forall ms f x,
        In f fs0 -> In (iv_name f, x) ms -> coercible_j d S x (iv_type f) = false -> members_ok d S fs0 ms = false.
    Proof.
      intros ms f x Hin Hm Hc. unfold members_ok.
      destruct (forallb _ ms) eqn:E; auto. rewrite forallb_forall in E. specialize (E _ Hm). simpl in E.
      rewrite field_named_find_ifield, (find_ifield_of_in fs0 f fs0_nodup Hin) in E. congruence.
    Qed.

    Lemma absent_ok_append : forall ms f v,
        In f fs0 -> has_default f = true -> absent_ok fs0 (ms ++ [(iv_name f, v)]) = absent_ok fs0 ms.
    Proof.
      intros ms f v Hin Hd. unfold absent_ok. apply forallb_ext_in. intros g Hg.
      rewrite member_present_app.
      destruct (bytes_eqb (iv_name g) (iv_name f)) eqn:E; [|rewrite orb_false_r; auto].
      apply bytes_eqb_eq in E.
      assert (g = f).
      { pose proof (find_ifield_of_in fs0 g fs0_nodup Hg) as H1. pose proof (find_ifield_of_in fs0 f fs0_nodup Hin) as H2.
        rewrite E in H1. congruence. }
      subst g. unfold absent_field_ok. rewrite <- has_default_field, Hd. simpl. rewrite !orb_true_r. reflexivity.
    Qed.

    Lemma obj_get_app_other : forall k k' v (ms : list (bytes * json)), k <> k' -> obj_get k (ms ++ [(k', v)]) = obj_get k ms.
    Proof.
      induction ms as [|[k2 v2] r IH]; simpl; intros H.
      - destruct (bytes_eqb k k') eqn:E; auto. apply bytes_eqb_eq in E. contradiction.
      - destruct (bytes_eqb k k2); auto.
    Qed.

    Lemma members_ok_set_present : forall mf k x fv f,
        obj_get k mf = Some x -> In f fs0 -> iv_name f = k ->
        coercible_j d S fv (iv_type f) = coercible_j d S x (iv_type f) ->
        members_ok d S fs0 (set_member k fv mf) = members_ok d S fs0 mf.
    Proof.
      unfold members_ok. induction mf as [|[k' v'] r IH]; simpl; intros k x fv f Hg Hin Hn Hc; [discriminate|].
      destruct (bytes_eqb k k') eqn:E.
      - inversion Hg; subst. apply bytes_eqb_eq in E. subst k'. simpl. f_equal.
        rewrite field_named_find_ifield. rewrite (find_ifield_of_in fs0 f fs0_nodup Hin). exact Hc.
      - simpl. f_equal. eapply IH; eauto.
    Qed.

    Lemma oneof_ok_set_present : forall mf k x fv,
        obj_get k mf = Some x -> jnull fv = jnull x -> oneof_ok td (set_member k fv mf) = oneof_ok td mf.
    Proof.
      intros mf k x fv Hg Hn. unfold oneof_ok. destruct (dirs_have sp_oneOf (td_dirs td)); auto.
      destruct mf as [|[k1 v1] [|[k2 v2] r]]; simpl in *; [discriminate| |].
      - destruct (bytes_eqb k k1); [inversion Hg; subst; simpl; rewrite Hn; auto|discriminate].
      - destruct (bytes_eqb k k1); simpl; auto. destruct (bytes_eqb k k2); simpl; auto.
        all: try (destruct r; simpl; auto).
    Qed.

    (* invariant of the loop: [ms] the original members, [mf] the members written so far, [fs] the fields still to do *)
    Definition inv (ms mf : list (bytes * json)) (fs : list inputvalue_def) : Prop :=
      NoDup (map fst mf) /\ forallb (fun kv => json_nodup (snd kv)) mf = true
      /\ (forall f, In f fs -> obj_get (iv_name f) mf = obj_get (iv_name f) ms)
      /\ members_ok d S fs0 mf = members_ok d S fs0 ms
      /\ absent_ok fs0 mf = absent_ok fs0 ms
      /\ oneof_ok td mf = oneof_ok td ms.

    Lemma inv_skip : forall ms mf f r, inv ms mf (f :: r) -> inv ms mf r.
    Proof. intros ms mf f r [H1 [H2 [H3 H4]]]. repeat split; auto; try tauto. intros g Hg. apply H3. right; auto. Qed.

    Lemma inv_append : forall ms mf f r dv v,
        In f fs0 -> NoDup (map iv_name (f :: r)) -> iv_default f = Some dv ->
        obj_get (iv_name f) ms = None ->
        coercible_j d S v (iv_type f) = true -> json_nodup v = true ->
        inv ms mf (f :: r) -> inv ms (mf ++ [(iv_name f, v)]) r.
    Proof.
      intros ms mf f r dv v Hin Hnd Hdv Habs Hc Hn [H1 [H2 [H3 [H4 [H5 H6]]]]].
      assert (Hk : ~ In (iv_name f) (map fst mf)).
      { apply obj_get_none. rewrite H3 by (left; auto). exact Habs. }
      destruct (field_default_of f dv Hin Hdv) as [_ [_ Hno]].
      repeat split.
      - rewrite map_app. simpl. apply NoDup_app_single; auto.
      - rewrite forallb_app'. rewrite H2. simpl. rewrite Hn. auto.
      - intros g Hg. rewrite obj_get_app_other; [apply H3; right; auto|].
        inversion Hnd; subst. intros E. apply H7. rewrite <- E. apply in_map. auto.
      - rewrite members_ok_append; auto.
      - rewrite absent_ok_append; auto. unfold has_default. rewrite Hdv. auto.
      - unfold oneof_ok. rewrite Hno. unfold oneof_ok in H6. rewrite Hno in H6. auto.
    Qed.

    Lemma inv_replace : forall ms mf f r x fv,
        In f fs0 -> NoDup (map iv_name (f :: r)) ->
        obj_get (iv_name f) ms = Some x ->
        coercible_j d S fv (iv_type f) = coercible_j d S x (iv_type f) -> json_nodup fv = true -> jnull fv = jnull x ->
        inv ms mf (f :: r) -> inv ms (set_member (iv_name f) fv mf) r.
    Proof.
      intros ms mf f r x fv Hin Hnd Hx Hc Hn Hj [H1 [H2 [H3 [H4 [H5 H6]]]]].
      assert (Hg : obj_get (iv_name f) mf = Some x) by (rewrite H3 by (left; auto); exact Hx).
      assert (Hk : In (iv_name f) (map fst mf)) by (eapply obj_get_some_key; eauto).
      repeat split.
      - rewrite keys_set_member_present; auto.
      - apply forallb_set_member; auto.
      - intros g Hgr. rewrite obj_get_set_member_other; [apply H3; right; auto|].
        inversion Hnd; subst. intros E. apply H7. rewrite E. apply in_map. auto.
      - rewrite (members_ok_set_present mf (iv_name f) x fv f); auto.
      - rewrite <- H5. unfold absent_ok. apply forallb_ext'. intros g. rewrite member_present_set_present; auto.
      - rewrite (oneof_ok_set_present mf (iv_name f) x fv); auto.
    Qed.

    (* recursiveInjectInputFields on an object *)
    Lemma loop_obj : forall ms,
        forallb (fun kv => json_nodup (snd kv)) ms = true ->
        forall fs mf any,
          (forall f, In f fs -> In f fs0) -> NoDup (map iv_name fs) -> inv ms mf fs ->
          match inject_loop q S inj (JObj ms) fs (JObj mf) any with
          | IOk final _ => exists mf', final = JObj mf' /\ inv ms mf' []
          | IErr => members_ok d S fs0 ms = false
          | IFuel => True
          | IPanic => False
          end.
    Proof.
      intros ms Hnd. rewrite forallb_forall in Hnd.
      induction fs as [|f r IH]; intros mf any Hsub Hnames Hinv.
      - simpl. exists mf. auto.
      - assert (Hf0 : In f fs0) by (apply Hsub; left; auto).
        assert (Hsub' : forall g, In g r -> In g fs0) by (intros; apply Hsub; right; auto).
        assert (Hnames' : NoDup (map iv_name r)) by (inversion Hnames; auto).
        cbn [inject_loop]. rewrite Hq_rep. cbn [jget negb andb].
        destruct (obj_get (iv_name f) ms) as [x|] eqn:Ex.
        + destruct (obj_get_in _ _ _ Ex) as [k' [Ek Hin]]. subst k'.
          assert (Hnx : json_nodup x = true) by (apply (Hnd _ Hin)).
          assert (Hskip : match inject_loop q S inj (JObj ms) r (JObj mf) any with
                          | IOk final _ => exists mf', final = JObj mf' /\ inv ms mf' []
                          | IErr => members_ok d S fs0 ms = false
                          | IFuel => True
                          | IPanic => False
                          end) by (apply IH; auto; eapply inv_skip; eauto).
          destruct x; try exact Hskip;
            (destruct (is_scalar_or_enum S (iv_type f)) eqn:Esc;
             [destruct (iv_default f); exact Hskip|]);
            match goal with
            | |- context [inj (iv_type f) ?xx] =>
              pose proof (Hinj (iv_type f) xx Hnx) as Hg;
                destruct (inj (iv_type f) xx) as [fv rep| | |]; simpl in Hg; try contradiction; auto;
                  [destruct Hg as [Hc [Hn Hj]]; simpl;
                   destruct rep; [apply IH; auto; eapply inv_replace; eauto|exact Hskip]
                  |eapply members_ok_bad; eauto]
            end.
        + destruct (is_scalar_or_enum S (iv_type f)) eqn:Esc.
          * destruct (iv_default f) as [dv|] eqn:Edv; [|apply IH; auto; eapply inv_skip; eauto].
            destruct (field_default_of f dv Hf0 Edv) as [Hn1 [Hc1 _]].
            assert (Hk : ~ In (iv_name f) (map fst mf)).
            { destruct Hinv as [_ [_ [H3 _]]]. apply obj_get_none. rewrite H3 by (left; auto). exact Ex. }
            cbn [jset]. rewrite set_member_absent by auto.
            apply IH; auto. eapply inv_append; eauto.
          * destruct (iv_default f) as [dv|] eqn:Edv; [|apply IH; auto; eapply inv_skip; eauto].
            destruct (field_default_of f dv Hf0 Edv) as [Hn1 [Hc1 _]].
            pose proof (Hinj (iv_type f) (value_to_json dv) Hn1) as Hg.
            destruct (inj (iv_type f) (value_to_json dv)) as [fv rep| | |]; simpl in Hg; try contradiction; auto; [|congruence].
            destruct Hg as [Hc [Hn Hj]]. simpl.
            assert (Hk : ~ In (iv_name f) (map fst mf)).
            { destruct Hinv as [_ [_ [H3 _]]]. apply obj_get_none. rewrite H3 by (left; auto). exact Ex. }
            rewrite set_member_absent by auto.
            apply IH; auto. eapply inv_append; eauto; try (rewrite Hc; exact Hc1).
    Qed.

    (* ... and on anything that is not an object: nothing can be written *)
    Lemma loop_nonobj : forall v, is_obj v = false ->
        forall fs, (forall f, In f fs -> In f fs0) ->
        inject_loop q S inj v fs v false = IOk v false
        \/ inject_loop q S inj v fs v false = IErr
        \/ inject_loop q S inj v fs v false = IFuel.
    Proof.
      intros v Hv. induction fs as [|f r IH]; intros Hsub; [left; reflexivity|].
      assert (Hf0 : In f fs0) by (apply Hsub; left; auto).
      specialize (IH (fun g h => Hsub g (or_intror h))).
      assert (Hex : jget (iv_name f) v = None) by (destruct v; auto; discriminate).
      assert (Hset : forall k x, jset v k x = None) by (intros; destruct v; auto; discriminate).
      cbn [inject_loop]. rewrite Hex, Hq_rep. cbn [negb andb].
      destruct v; try discriminate; auto;
        (destruct (is_scalar_or_enum S (iv_type f));
         [destruct (iv_default f); [rewrite Hset; auto|exact IH]
         |destruct (iv_default f) as [dv|] eqn:Edv; [|exact IH];
          destruct (field_default_of f dv Hf0 Edv) as [Hn1 [Hc1 _]];
          pose proof (Hinj (iv_type f) (value_to_json dv) Hn1) as Hg;
          destruct (inj (iv_type f) (value_to_json dv)); simpl in Hg; try contradiction; auto;
          simpl; rewrite Hset; auto]).
    Qed.

    Hypothesis Hkind : td_kind td = KInputObject.
    Hypothesis Hfound : find_type (td_name td) (s_types S) = Some td.

    Lemma coercible_at : forall t v, named_of t = td_name td -> is_list t = false -> jnull v = false ->
        coercible_j d S v t = match v with JObj ms => obj_ok ms | _ => false end.
    Proof.
      intros t v Hn Hl Hnn. rewrite coercible_j_strip by auto.
      unfold is_list in Hl. pose proof (named_of_strip t) as Hns.
      destruct (strip_nonnull t) as [n|t'|t'] eqn:Es; try discriminate.
      - simpl in Hns. rewrite coercible_j_eq. unfold named_coercible. rewrite Hns, Hn, Hfound, Hkind.
        destruct v; try reflexivity; discriminate.
      - exfalso. eapply strip_nonnull_not_nonnull; eauto.
    Qed.

    (* recursiveInjectInputFields on any non-null value, at a non-list type whose name is this input object *)
    Lemma fields_ok : forall t v,
        named_of t = td_name td -> is_list t = false -> jnull v = false -> json_nodup v = true ->
        match inject_fields q S inj (Some fs0) v with
        | IOk nv _ => rel t v nv
        | IErr => coercible_j d S v t = false
        | IFuel => True
        | IPanic => False
        end.
    Proof.
      intros t v Hn Hl Hnn Hnd. unfold inject_fields.
      destruct (is_obj v) eqn:Eo.
      - destruct v as [| | | | |ms]; try discriminate.
        rewrite json_nodup_obj in Hnd. apply andb_true_iff in Hnd. destruct Hnd as [Hk Hv]. apply nodupb_NoDup in Hk.
        pose proof (loop_obj ms Hv fs0 ms false (fun f h => h) fs0_nodup) as H.
        assert (Hinv0 : inv ms ms fs0) by (repeat split; auto).
        specialize (H Hinv0).
        destruct (inject_loop q S inj (JObj ms) fs0 (JObj ms) false) as [final any| | |]; auto.
        + destruct H as [mf' [-> [H1 [H2 [_ [H4 [H5 H6]]]]]]].
          unfold rel. rewrite !(coercible_at t) by auto. unfold obj_ok. rewrite H4, H5, H6.
          repeat split; auto. rewrite json_nodup_obj. apply andb_true_iff. split; auto. apply nodupb_NoDup. auto.
        + rewrite (coercible_at t) by auto. unfold obj_ok. rewrite H. reflexivity.
      - destruct (loop_nonobj v Eo fs0 (fun f h => h)) as [E|[E|E]]; rewrite E; auto.
        + unfold rel. auto.
        + rewrite (coercible_at t) by auto. destruct v; auto. discriminate.
    Qed.

    (* jsonWalker, repaired: the write position is the element's position *)
    Lemma walk_gen : forall (lol : bool) ofs t',
        forall l,
          (forall x, In x l ->
                     json_nodup x = true
                     /\ match (match x with
                               | JArr _ => if lol then Some (inj t' x) else None
                               | JObj _ => if lol then None else Some (inject_fields q S inj ofs x)
                               | _ => None
                               end) with
                        | None => True
                        | Some (IOk nv _) => rel t' x nv
                        | Some IPanic => False
                        | Some _ => True
                        end) ->
          forall pre i rep,
            match inject_walk q S inj lol ofs t' l (length pre) i (pre ++ l) rep with
            | IOk out _ => exists l', out = JArr (pre ++ l') /\ Forall2 (rel t') l l'
            | IFuel => True
            | _ => False
            end.
    Proof.
      intros lol ofs t'. induction l as [|x r IH]; intros Hall pre i rep.
      - simpl. exists []. split; auto.
      - destruct (Hall x (or_introl eq_refl)) as [Hn Hr].
        pose proof (fun y (Hy : In y r) => Hall y (or_intror Hy)) as Hall'.
        assert (Hkeep : forall i' rep',
                   match inject_walk q S inj lol ofs t' r (Datatypes.S (length pre)) i' (pre ++ x :: r) rep' with
                   | IOk out _ => exists l', out = JArr (pre ++ l') /\ Forall2 (rel t') (x :: r) l'
                   | IFuel => True
                   | _ => False
                   end).
        { intros i' rep'. specialize (IH Hall' (pre ++ [x]) i' rep'). rewrite app_length in IH. simpl in IH.
          rewrite PeanoNat.Nat.add_1_r in IH. rewrite <- app_assoc in IH. simpl in IH.
          destruct (inject_walk q S inj lol ofs t' r (Datatypes.S (length pre)) i' (pre ++ x :: r) rep') as [out b2| | |]; auto.
          destruct IH as [l' [-> HF]]. exists (x :: l'). rewrite <- app_assoc. simpl. split; auto.
          constructor; auto. unfold rel. auto. }
        cbn [inject_walk]. rewrite Hq_drift.
        destruct (match x with
                  | JArr _ => if lol then Some (inj t' x) else None
                  | JObj _ => if lol then None else Some (inject_fields q S inj ofs x)
                  | _ => None
                  end) as [[nv b| | |]|]; try contradiction; try apply Hkeep; auto.
        destruct b; [|apply Hkeep].
        rewrite set_nth_app.
        specialize (IH Hall' (pre ++ [nv]) (Datatypes.S i) true). rewrite app_length in IH. simpl in IH.
        rewrite PeanoNat.Nat.add_1_r in IH. rewrite <- app_assoc in IH. simpl in IH.
        destruct (inject_walk q S inj lol ofs t' r (Datatypes.S (length pre)) (Datatypes.S i) (pre ++ nv :: r) true) as [out b2| | |]; auto.
        destruct IH as [l' [-> HF]]. exists (nv :: l'). rewrite <- app_assoc. simpl. split; auto.
    Qed.
  End Parts.

  Lemma strip_cases : forall t, (exists n, strip_nonnull t = TNamed n /\ is_list t = false /\ n = named_of t)
                                \/ (exists t', strip_nonnull t = TList t' /\ is_list t = true /\ named_of t' = named_of t).
  Proof.
    intros t. unfold is_list. pose proof (named_of_strip t) as Hn.
    destruct (strip_nonnull t) as [n|t'|t'] eqn:E.
    - left. exists n. simpl in Hn. auto.
    - right. exists t'. simpl in Hn. auto.
    - exfalso. eapply strip_nonnull_not_nonnull; eauto.
  Qed.

  Lemma good_res_refl : forall v t b, json_nodup v = true -> good_res v t (IOk v b).
  Proof. intros. simpl. auto. Qed.

  Lemma forallb_rel : forall t l l', Forall2 (rel t) l l' ->
      forallb (fun x => coercible_j d S x t) l' = forallb (fun x => coercible_j d S x t) l
      /\ forallb json_nodup l' = true.
  Proof.
    induction 1 as [|x x' l l' [H1 [H2 H3]] HF [IH1 IH2]]; simpl; auto.
    rewrite H1, IH1, H2, IH2. auto.
  Qed.

  Lemma good_res_arr : forall t t' items l' b,
      strip_nonnull t = TList t' -> Forall2 (rel t') items l' -> good_res (JArr items) t (IOk (JArr l') b).
  Proof.
    intros t t' items l' b Hs HF. destruct (forallb_rel _ _ _ HF) as [H1 H2]. unfold good_res.
    rewrite (coercible_j_strip d S (JArr l') t) by reflexivity.
    rewrite (coercible_j_strip d S (JArr items) t) by reflexivity.
    rewrite Hs. rewrite (coercible_j_eq d S (JArr l')), (coercible_j_eq d S (JArr items)). rewrite H1.
    rewrite json_nodup_arr. repeat split; auto.
  Qed.

  (* the input object case of processObjectOrListInput *)
  Lemma core_ok : forall fuel,
      (forall t v, json_nodup v = true -> good_res v t (inject q S reparse fuel t v)) ->
      forall t v td,
        lookup S (named_of t) = Some td -> td_kind td = KInputObject ->
        json_nodup v = true ->
        good_res v t
                 (match v with
                  | JNull => IOk v true
                  | JArr items =>
                    if is_list t then
                      match strip_nonnull t with
                      | TList t' => inject_walk q S (inject q S reparse fuel) (is_list t') (fields_by_ref S td) t' items O O items false
                      | _ => IOk v false
                      end
                    else IOk v false
                  | _ => if is_list t then IOk v false else
                           match inject_fields q S (inject q S reparse fuel) (fields_by_ref S td) v with
                           | IOk _ false => IOk v false
                           | other => other
                           end
                  end).
  Proof.
    intros fuel IH t v td Hl Hkind Hnd.
    unfold lookup in Hl. destruct (find_type_in _ _ _ Hl) as [Htd Hname].
    assert (Hfound : find_type (td_name td) (s_types S) = Some td) by (rewrite Hname; exact Hl).
    assert (Hfb : fields_by_ref S td = Some (td_input_fields td)) by (unfold fields_by_ref; rewrite Hkind; auto).
    rewrite Hfb.
    assert (Hfields_case : forall t0 v0, named_of t0 = td_name td -> is_list t0 = false -> jnull v0 = false -> json_nodup v0 = true ->
               good_res v0 t0 (match inject_fields q S (inject q S reparse fuel) (Some (td_input_fields td)) v0 with
                               | IOk _ false => IOk v0 false
                               | other => other
                               end)).
    { intros t0 v0 Hn0 Hl0 Hnn0 Hnd0.
      pose proof (fields_ok (inject q S reparse fuel) IH td Htd Hkind Hfound t0 v0 Hn0 Hl0 Hnn0 Hnd0) as H.
      destruct (inject_fields q S (inject q S reparse fuel) (Some (td_input_fields td)) v0) as [nv b| | |]; auto.
      destruct b; [exact H|apply good_res_refl; auto]. }
    destruct (strip_cases t) as [[n [Est [Hlist Hn]]]|[t' [Est [Hlist Hn]]]]; rewrite Hlist.
    - (* a named type *)
      assert (Hnt : named_of t = td_name td) by congruence.
      destruct v; try (apply good_res_refl; auto; fail); apply Hfields_case; auto.
    - (* a list type *)
      rewrite Est.
      destruct v as [| | | |items|ms]; try (apply good_res_refl; auto; fail).
      rewrite json_nodup_arr in Hnd. rewrite forallb_forall in Hnd.
      pose proof (walk_gen (inject q S reparse fuel) (is_list t') (Some (td_input_fields td)) t' items) as HW.
      match type of HW with (?A -> _) => assert (Hall : A) end; [|specialize (HW Hall [] O false); simpl in HW].
      { intros x Hin. specialize (Hnd x Hin). split; auto.
        destruct x as [| | | |xs|xm]; auto.
        - destruct (is_list t'); auto. specialize (IH t' (JArr xs) Hnd).
          destruct (inject q S reparse fuel t' (JArr xs)); simpl in IH; auto.
        - destruct (is_list t') eqn:Hlol; auto.
          assert (Hnt : named_of t' = td_name td) by congruence.
          pose proof (fields_ok (inject q S reparse fuel) IH td Htd Hkind Hfound t' (JObj xm) Hnt Hlol eq_refl Hnd) as H.
          destruct (inject_fields q S (inject q S reparse fuel) (Some (td_input_fields td)) (JObj xm)); auto. }
      destruct (inject_walk q S (inject q S reparse fuel) (is_list t') (Some (td_input_fields td)) t' items 0 0 items false) as [out b| | |]; try contradiction; auto.
      destruct HW as [l' [-> HF]]. eapply good_res_arr; eauto.
  Qed.

  (* processObjectOrListInput on every value *)
  Theorem inject_ok : forall fuel t v, json_nodup v = true -> good_res v t (inject q S reparse fuel t v).
  Proof.
    induction fuel as [|fuel IH]; intros t v Hn; [exact I|].
    cbn [inject]. rewrite Hq_rep, Hq_kind. cbn [negb andb].
    assert (Hoval : match v with JStr _ => Some v | _ => Some v end = Some v) by (destruct v; auto).
    rewrite Hoval.
    destruct (lookup S (named_of t)) as [td|] eqn:El; [|apply good_res_refl; auto].
    destruct (td_kind td) eqn:Ek; try (apply good_res_refl; auto; fail).
    cbn [kind_eqb negb andb].
    apply (core_ok fuel IH t v td El Ek Hn).
  Qed.
End InjectProof.

(* ------------------------------------------------------------------ the pipeline with default injection *)
Section PipelineFull.
  Variable S : schema.
  Variable reparse : bytes -> option json.
  Variable q : quirks.
  Hypothesis Hq_drift : q_inject_drift q = false.
  Hypothesis Hq_kind : q_inject_kind q = false.
  Hypothesis Hq_rep : q_inject_reparse q = false.
  Hypothesis Hq_fnull : q_field_null_default q = false.
  Hypothesis Hq_enull : q_elem_null_default q = false.
  Let d := dialect_of q.
  Let dfull := Build_dialect true (q_int_any_number q) (q_id_any_number q).

  Hypothesis Hfields : fields_nodup S = true.
  Hypothesis Hdefs : field_defaults_ok d S = true.
  Hypothesis Honeof : oneof_no_defaults S = true.

  Lemma norm_value_ext : forall vd ms ms', obj_get (vd_name vd) ms = obj_get (vd_name vd) ms' ->
                                           norm_value S vd ms = norm_value S vd ms'.
  Proof. intros. unfold norm_value. rewrite H. reflexivity. Qed.

  Definition var_result (ms ms3 : list (bytes * json)) (vd : vardef) : Prop :=
    match norm_value S vd ms with
    | None => obj_get (vd_name vd) ms3 = None
    | Some u => exists nv, obj_get (vd_name vd) ms3 = Some nv
                           /\ coercible_j d S nv (vd_type vd) = coercible_j d S u (vd_type vd)
    end.
  (* what a normalisation error means for the variable it stopped at *)
  Definition var_bad (ms : list (bytes * json)) (vd : vardef) : Prop :=
    coercible d S (vd_type vd) false (norm_value S vd ms) = false.

  Lemma norm_var_ok : forall vd ms,
      var_default_ok S dfull vd = true -> json_nodup (JObj ms) = true ->
      match norm_var q S reparse vd ms with
      | NOk ms3 => json_nodup (JObj ms3) = true
                   /\ (forall k, k <> vd_name vd -> obj_get k ms3 = obj_get k ms)
                   /\ var_result ms ms3 vd
      | NErr => var_bad ms vd
      | NFuel => True
      | NPanic => False
      end.
  Proof.
    intros vd ms Hd Hn.
    pose proof (norm_var_ni_nodup q S dfull vd ms Hd Hn) as Hn2.
    pose proof (norm_var_ni_same q S vd ms) as Hsame.
    pose proof (norm_var_ni_other q S vd ms) as Hother.
    unfold norm_var.
    change (match obj_get (vd_name vd) (extract_default q vd ms) with
            | Some v => set_member (vd_name vd) (coerce_j S v (vd_type vd)) (extract_default q vd ms)
            | None => extract_default q vd ms
            end) with (norm_var_ni q S vd ms).
    set (ms2 := norm_var_ni q S vd ms) in *.
    unfold var_result, var_bad.
    rewrite Hsame. destruct (norm_value S vd ms) as [u|] eqn:Enu.
    2:{ repeat split; auto. }
    assert (Hnu : json_nodup u = true).
    { rewrite json_nodup_obj in Hn2. apply andb_true_iff in Hn2. destruct Hn2 as [_ Hv]. rewrite forallb_forall in Hv.
      destruct (obj_get_in _ _ _ Hsame) as [k' [_ Hin]]. apply (Hv (k', u)). auto. }
    assert (Hkeep : json_nodup (JObj ms2) = true
                    /\ (forall k, k <> vd_name vd -> obj_get k ms2 = obj_get k ms)
                    /\ (exists nv, obj_get (vd_name vd) ms2 = Some nv
                                   /\ coercible_j d S nv (vd_type vd) = coercible_j d S u (vd_type vd)))
      by (repeat split; auto; exists u; auto).
    rewrite Hq_rep. cbn [negb andb].
    destruct (match u with JStr _ => true | _ => false end); [exact Hkeep|].
    destruct (is_scalar_or_enum S (vd_type vd)) eqn:Esc; [exact Hkeep|].
    pose proof (inject_ok d S reparse q Hq_drift Hq_kind Hq_rep Hfields Hdefs Honeof (inject_budget S u) (vd_type vd) u Hnu) as Hg.
    destruct (inject q S reparse (inject_budget S u) (vd_type vd) u) as [nv rep| | |]; simpl in Hg; try contradiction; auto.
    destruct Hg as [Hc [Hnn _]].
    destruct rep; [|exact Hkeep].
    repeat split.
    - rewrite json_nodup_obj in *. apply andb_true_iff in Hn2. destruct Hn2 as [Hk Hv].
      apply andb_true_iff. split.
      + rewrite keys_set_member_present; auto. eapply obj_get_some_key; eauto.
      + apply forallb_set_member; auto.
    - intros k Hk. rewrite obj_get_set_member_other by auto. apply Hother. auto.
    - exists nv. split; auto. apply obj_get_set_member_same.
  Qed.

  Lemma normalise_ok : forall vds ms,
      NoDup (map vd_name vds) ->
      forallb (var_default_ok S dfull) vds = true -> json_nodup (JObj ms) = true ->
      match normalise q S reparse vds ms with
      | NOk ms' => json_nodup (JObj ms') = true
                   /\ (forall k, ~ In k (map vd_name vds) -> obj_get k ms' = obj_get k ms)
                   /\ (forall vd, In vd vds -> var_result ms ms' vd)
      | NErr => exists vd, In vd vds /\ var_bad ms vd
      | NFuel => True
      | NPanic => False
      end.
  Proof.
    induction vds as [|vd r IH]; intros ms Hnd Hd Hn; simpl.
    - repeat split; auto. intros vd [].
    - simpl in Hd. apply andb_true_iff in Hd. destruct Hd as [Hd1 Hd2].
      inversion Hnd as [|? ? H1 H2]; subst.
      pose proof (norm_var_ok vd ms Hd1 Hn) as Hv1.
      destruct (norm_var q S reparse vd ms) as [ms3| | |]; try contradiction; auto.
      2:{ exists vd. split; auto. }
      destruct Hv1 as [Hn3 [Hoth Hres]].
      assert (Hsame : forall v, In v r -> obj_get (vd_name v) ms = obj_get (vd_name v) ms3).
      { intros v Hv. symmetry. apply Hoth. intros E. apply H1. rewrite <- E. apply in_map. auto. }
      specialize (IH ms3 H2 Hd2 Hn3).
      destruct (normalise q S reparse r ms3) as [ms'| | |]; try contradiction; auto.
      + destruct IH as [Hn' [Hoth' Hres']]. repeat split; auto.
        * intros k Hk. rewrite Hoth' by (intros Hin; apply Hk; right; auto). apply Hoth. intros E. apply Hk. left. auto.
        * intros v [<-|Hv].
          -- unfold var_result in *. rewrite Hoth' by auto. exact Hres.
          -- specialize (Hres' v Hv). unfold var_result in *.
             rewrite (norm_value_ext v ms ms3) by (apply Hsame; auto). exact Hres'.
      + destruct IH as [v [Hv Hb]]. exists v. split; auto. unfold var_bad in *.
        rewrite (norm_value_ext v ms ms3) by (apply Hsame; auto). exact Hb.
  Qed.

  (* the strict reading of what the validator will find = the full reading of the request *)
  Lemma norm_value_coercible : forall vd ms,
      var_default_ok S dfull vd = true ->
      coercible d S (vd_type vd) false (norm_value S vd ms) = coercible_var dfull S (JObj ms) vd.
  Proof.
    intros vd ms Hd. unfold coercible_var, coercible, vd_hasdef, norm_value. simpl.
    destruct (obj_get (vd_name vd) ms) as [v|].
    - apply coerce_correct.
    - unfold var_default_ok in Hd. destruct (vd_default vd) as [dv|]; simpl; auto.
      apply andb_true_iff in Hd. destruct Hd as [_ Hd].
      unfold d, dialect_of. rewrite coerce_correct. unfold dfull in Hd. rewrite coercible_extracted_full. exact Hd.
  Qed.

  Theorem pipeline_full_iff_coercible : forall vds ms,
      json_nodup (JObj ms) = true ->
      vars_nodup vds = true ->
      no_upload_ref S vds = true ->
      forallb (var_default_ok S dfull) vds = true ->
      normalise q S reparse vds ms <> NFuel ->
      (accepts q S reparse vds (JObj ms) = true <-> coercible_all dfull S vds (JObj ms) = true).
  Proof.
    intros vds ms Hj Hv HU Hdef Hfuel.
    apply nodupb_NoDup in Hv.
    pose proof (normalise_ok vds ms Hv Hdef Hj) as Hn.
    unfold accepts, pipeline.
    destruct (normalise q S reparse vds ms) as [ms'| | |]; try contradiction; try congruence.
    2:{ (* normalisation stopped: the variable it stopped at does not coerce *)
      destruct Hn as [vd [Hin Hb]]. unfold var_bad in Hb.
      rewrite norm_value_coercible in Hb by (rewrite forallb_forall in Hdef; auto).
      split; [discriminate|]. intros H. unfold coercible_all in H. rewrite forallb_forall in H.
      rewrite (H vd Hin) in Hb. discriminate. }
    destruct Hn as [Hn' [_ Hres]].
    assert (Hperm : Permutation.Permutation (remap q vds) vds) by (apply remap_perm; eapply no_upload_ref_vars; eauto).
    assert (Hval : validate q S (remap q vds) (JObj ms') = None
                   <-> coercible_all (dialect_of q) S (map strip_default (remap q vds)) (JObj ms') = true).
    { apply validate_iff_coercible; auto;
        try (right; eapply no_upload_ref_perm; eauto; fail); try (left; split; assumption). }
    rewrite (coercible_all_perm (dialect_of q) S (map strip_default vds) (map strip_default (remap q vds)) (JObj ms')) in Hval
      by (apply Permutation.Permutation_map; auto).
    assert (Heq : coercible_all (dialect_of q) S (map strip_default vds) (JObj ms') = coercible_all dfull S vds (JObj ms)).
    { unfold coercible_all.
      assert (Hfm : forall (f : vardef -> bool) l, forallb f (map strip_default l) = forallb (fun x => f (strip_default x)) l).
      { induction l; simpl; auto. rewrite IHl. auto. }
      rewrite Hfm. apply forallb_ext_in. intros vd Hin.
      rewrite <- (norm_value_coercible vd ms) by (rewrite forallb_forall in Hdef; auto).
      specialize (Hres vd Hin). unfold var_result in Hres.
      unfold coercible_var, coercible, strip_default, vd_hasdef. simpl.
      destruct (norm_value S vd ms) as [u|].
      - destruct Hres as [nv [-> Hc]]. exact Hc.
      - rewrite Hres. reflexivity. }
    rewrite Heq in Hval. rewrite <- Hval.
    destruct (validate q S (remap q vds) (JObj ms')); split; intros; congruence.
  Qed.
End PipelineFull.
