(* C06: default injection (inject_input_default_values.go) is neutral for the specification on
   well-shaped values: arrays where the type has a list, objects where it has an input object, no
   null among the elements of a list of lists / of input objects -- the shapes on which the
   element counter of jsonWalker does not drift, no enum ref is used as an input object ref, and no
   string content is re-parsed. *)
From Gv Require Import lib.Bytes lib.Json lib.Gql C06.Num C06.Model C06.Spec C06.ProofsBase C06.ProofsValidator C06.ProofsCoerce C06.ProofsPipeline.
From Coq Require Import List NArith Bool Lia ZifyN ZifyNat ZifyBool.
Import ListNotations.
Open Scope N_scope.

Definition is_str (j : json) : bool := match j with JStr _ => true | _ => false end.
Definition is_obj (j : json) : bool := match j with JObj _ => true | _ => false end.

(* ------------------------------------------------------------------ the shape *)
Section Shape.
  Variable S : schema.

  Fixpoint shp (isobj : bool) (fs : list inputvalue_def) (j : json) {struct j} : ty -> bool :=
    fix sh (t : ty) : bool :=
      match t with
      | TNonNull t' => sh t'
      | TList t' =>
        match j with
        | JArr items => (fix all (l : list json) : bool := match l with [] => true | x :: r => shp isobj fs x t' && all r end) items
        | _ => false
        end
      | TNamed _ =>
        if isobj then
          match j with
          | JObj ms =>
            (fix mem (l : list (bytes * json)) : bool :=
               match l with
               | [] => true
               | (k, v) :: r =>
                 match find_ifield k fs with
                 | Some f =>
                   is_scalar_or_enum S (iv_type f)
                   || (negb (is_str v)
                       && (jnull v
                           || match lookup S (named_of (iv_type f)) with
                              | None => true
                              | Some td' =>
                                match td_kind td' with
                                | KScalar => true
                                | k' => (kind_eqb k' KInputObject || is_list (iv_type f))
                                        && shp (kind_eqb k' KInputObject) (td_input_fields td') v (iv_type f)
                                end
                              end))
                 | None => true
                 end && mem r
               end) ms
          | _ => false
          end
        else negb (is_obj j)
      end.

  (* a value handed to processObjectOrListInput *)
  Definition entry (v : json) (t : ty) : bool :=
    negb (is_str v)
    && (jnull v
        || match lookup S (named_of t) with
           | None => true
           | Some td =>
             match td_kind td with
             | KScalar => true
             | k => (kind_eqb k KInputObject || is_list t) && shp (kind_eqb k KInputObject) (td_input_fields td) v t
             end
           end).

  Definition member_shaped (fs : list inputvalue_def) (kv : bytes * json) : bool :=
    match find_ifield (fst kv) fs with
    | Some f => is_scalar_or_enum S (iv_type f) || entry (snd kv) (iv_type f)
    | None => true
    end.

  Lemma shp_eq : forall isobj fs j t,
      shp isobj fs j t =
      match t with
      | TNonNull t' => shp isobj fs j t'
      | TList t' => match j with JArr items => forallb (fun x => shp isobj fs x t') items | _ => false end
      | TNamed _ => if isobj then match j with JObj ms => forallb (member_shaped fs) ms | _ => false end
                    else negb (is_obj j)
      end.
  Proof.
    intros isobj fs j t. destruct t as [n|t'|t']; destruct j; try reflexivity.
    simpl. destruct isobj; auto.
    induction members as [|[k v] r IH]; simpl; auto. rewrite IH. reflexivity.
  Qed.
End Shape.

(* ------------------------------------------------------------------ list facts *)
Lemma set_member_absent : forall k v ms, ~ In k (map fst ms) -> set_member k v ms = ms ++ [(k, v)].
Proof.
  induction ms as [|[k' v'] r IH]; simpl; intros H; auto.
  destruct (bytes_eqb k k') eqn:E.
  - apply bytes_eqb_eq in E. subst. exfalso. apply H. auto.
  - rewrite IH; auto.
Qed.

Lemma set_nth_app : forall pre x r nv, set_nth (length pre) nv (pre ++ x :: r) = pre ++ nv :: r.
Proof. induction pre; simpl; intros; auto. rewrite IHpre. auto. Qed.

Lemma forallb_app' : forall A (f : A -> bool) l1 l2, forallb f (l1 ++ l2) = forallb f l1 && forallb f l2.
Proof. induction l1; simpl; intros; auto. rewrite IHl1. apply andb_assoc. Qed.

Lemma member_present_app : forall k ms k' v, member_present k (ms ++ [(k', v)]) = member_present k ms || bytes_eqb k k'.
Proof.
  intros. unfold member_present. induction ms as [|kv r IH]; simpl; [apply orb_false_r|].
  rewrite IH. apply orb_assoc.
Qed.

Lemma forallb_ext_in : forall A (f g : A -> bool) l, (forall x, In x l -> f x = g x) -> forallb f l = forallb g l.
Proof. induction l; simpl; intros; auto. rewrite H, IHl; auto. Qed.

Lemma NoDup_app_single : forall (A : Type) (l : list A) x, NoDup l -> ~ In x l -> NoDup (l ++ [x]).
Proof.
  induction l; simpl; intros x Hn Hx.
  - constructor; auto.
  - inversion Hn; subst. constructor.
    + intros Hin. apply in_app_or in Hin. destruct Hin as [Hin|[E|[]]]; [contradiction|]. subst. apply Hx. auto.
    + apply IHl; auto.
Qed.

Lemma member_present_set_present : forall k k0 v ms, In k0 (map fst ms) -> member_present k (set_member k0 v ms) = member_present k ms.
Proof.
  intros k k0 v ms H. unfold member_present.
  induction ms as [|[k' v'] r IH]; simpl in *; [contradiction|].
  destruct (bytes_eqb k0 k') eqn:E; simpl; auto.
  rewrite IH; auto. destruct H as [H|H]; auto. subst. rewrite bytes_eqb_refl in E. discriminate.
Qed.

Section InjectProof.
  Variable d : dialect.
  Variable S : schema.
  Variable reparse : bytes -> option json.
  Let q := go_quirks.

  Hypothesis Hfields : fields_nodup S = true.
  (* defaults in the schema are valid, well-shaped values of their field's type *)
  Definition field_default_ok (f : inputvalue_def) : bool :=
    match iv_default f with
    | None => true
    | Some dv => json_nodup (value_to_json dv) && coercible_j d S (value_to_json dv) (iv_type f)
                 && (is_scalar_or_enum S (iv_type f) || entry S (value_to_json dv) (iv_type f))
    end.
  Definition field_defaults_ok : bool :=
    forallb (fun td => forallb field_default_ok (td_input_fields td)) (s_types S).
  (* OneOf input objects have no defaults (GraphQL schema validity) *)
  Definition oneof_no_defaults : bool :=
    forallb (fun td => negb (dirs_have sp_oneOf (td_dirs td)) || forallb (fun f => negb (has_default f)) (td_input_fields td)) (s_types S).
  Hypothesis Hdefs : field_defaults_ok = true.
  Hypothesis Honeof : oneof_no_defaults = true.

  (* what a call of processObjectOrListInput on [u] at type [t] must return *)
  Definition good_res (u : json) (t : ty) (r : ires) : Prop :=
    match r with
    | IOk nv _ => coercible_j d S nv t = coercible_j d S u t /\ json_nodup nv = true /\ jnull nv = jnull u
    | IFuel => True
    | _ => False
    end.

  Section Parts.
    Variable inj : ty -> json -> ires.
    Hypothesis Hinj : forall t u, entry S u t = true -> json_nodup u = true -> good_res u t (inj t u).

    Variable td : type_def.
    Hypothesis Htd : In td (s_types S).
    Let fs0 := td_input_fields td.

    Lemma fs0_nodup : NoDup (map iv_name fs0).
    Proof. unfold fields_nodup in Hfields. rewrite forallb_forall in Hfields. apply nodupb_NoDup. apply Hfields. auto. Qed.

    Lemma field_default_of : forall f dv, In f fs0 -> iv_default f = Some dv ->
        json_nodup (value_to_json dv) = true /\ coercible_j d S (value_to_json dv) (iv_type f) = true
        /\ (is_scalar_or_enum S (iv_type f) = false -> entry S (value_to_json dv) (iv_type f) = true)
        /\ dirs_have sp_oneOf (td_dirs td) = false.
    Proof.
      intros f dv Hin Hd.
      unfold field_defaults_ok in Hdefs. rewrite forallb_forall in Hdefs. specialize (Hdefs td Htd).
      rewrite forallb_forall in Hdefs. specialize (Hdefs f Hin). unfold field_default_ok in Hdefs. rewrite Hd in Hdefs.
      apply andb_true_iff in Hdefs. destruct Hdefs as [H12 H3]. apply andb_true_iff in H12. destruct H12 as [H1 H2].
      repeat split; auto.
      - intros Hs. rewrite Hs in H3. exact H3.
      - unfold oneof_no_defaults in Honeof. rewrite forallb_forall in Honeof. specialize (Honeof td Htd).
        destruct (dirs_have sp_oneOf (td_dirs td)); auto. simpl in Honeof.
        rewrite forallb_forall in Honeof. specialize (Honeof f Hin). unfold has_default in Honeof. rewrite Hd in Honeof. discriminate.
    Qed.

    (* the three parts of an input object's coercibility, as the members change *)
    Definition obj_ok (ms : list (bytes * json)) : bool := members_ok d S fs0 ms && absent_ok fs0 ms && oneof_ok td ms.

    Lemma members_ok_append : forall ms f v,
        In f fs0 -> coercible_j d S v (iv_type f) = true ->
        members_ok d S fs0 (ms ++ [(iv_name f, v)]) = members_ok d S fs0 ms.
    Proof.
      intros ms f v Hin Hc. unfold members_ok. rewrite forallb_app'. simpl.
      rewrite field_named_find_ifield. rewrite (find_ifield_of_in fs0 f fs0_nodup Hin). rewrite Hc. simpl. apply andb_true_r.
    Qed.

    Lemma absent_ok_append : forall ms f v,
        In f fs0 -> has_default f = true -> absent_ok fs0 (ms ++ [(iv_name f, v)]) = absent_ok fs0 ms.
    Proof.
      intros ms f v Hin Hd. unfold absent_ok. apply forallb_ext_in. intros g Hg.
      rewrite member_present_app.
      destruct (bytes_eqb (iv_name g) (iv_name f)) eqn:E; [|rewrite orb_false_r; auto].
      apply bytes_eqb_eq in E.
      assert (g = f).
      { pose proof (find_ifield_of_in fs0 g fs0_nodup Hg) as H1. pose proof (find_ifield_of_in fs0 f fs0_nodup Hin) as H2.
        rewrite E in H1. congruence. }
      subst g. unfold absent_field_ok. rewrite <- has_default_field, Hd. simpl. rewrite !orb_true_r. reflexivity.
    Qed.

    Lemma obj_get_app_other : forall k k' v (ms : list (bytes * json)), k <> k' -> obj_get k (ms ++ [(k', v)]) = obj_get k ms.
    Proof.
      induction ms as [|[k2 v2] r IH]; simpl; intros H.
      - destruct (bytes_eqb k k') eqn:E; auto. apply bytes_eqb_eq in E. contradiction.
      - destruct (bytes_eqb k k2); auto.
    Qed.

    Lemma members_ok_set_present : forall mf k x fv f,
        obj_get k mf = Some x -> In f fs0 -> iv_name f = k ->
        coercible_j d S fv (iv_type f) = coercible_j d S x (iv_type f) ->
        members_ok d S fs0 (set_member k fv mf) = members_ok d S fs0 mf.
    Proof.
      unfold members_ok. induction mf as [|[k' v'] r IH]; simpl; intros k x fv f Hg Hin Hn Hc; [discriminate|].
      destruct (bytes_eqb k k') eqn:E.
      - inversion Hg; subst. apply bytes_eqb_eq in E. subst k'. simpl. f_equal.
        rewrite field_named_find_ifield. rewrite (find_ifield_of_in fs0 f fs0_nodup Hin). exact Hc.
      - simpl. f_equal. eapply IH; eauto.
    Qed.

    Lemma oneof_ok_set_present : forall mf k x fv,
        obj_get k mf = Some x -> jnull fv = jnull x -> oneof_ok td (set_member k fv mf) = oneof_ok td mf.
    Proof.
      intros mf k x fv Hg Hn. unfold oneof_ok. destruct (dirs_have sp_oneOf (td_dirs td)); auto.
      destruct mf as [|[k1 v1] [|[k2 v2] r]]; simpl in *; [discriminate| |].
      - destruct (bytes_eqb k k1); [inversion Hg; subst; simpl; rewrite Hn; auto|discriminate].
      - destruct (bytes_eqb k k1); simpl; auto. destruct (bytes_eqb k k2); simpl; auto.
        all: try (destruct r; simpl; auto).
    Qed.

    (* invariant of the loop: [ms] the original members, [mf] the members written so far, [fs] the fields still to do *)
    Definition inv (ms mf : list (bytes * json)) (fs : list inputvalue_def) : Prop :=
      NoDup (map fst mf) /\ forallb (fun kv => json_nodup (snd kv)) mf = true
      /\ (forall f, In f fs -> obj_get (iv_name f) mf = obj_get (iv_name f) ms)
      /\ members_ok d S fs0 mf = members_ok d S fs0 ms
      /\ absent_ok fs0 mf = absent_ok fs0 ms
      /\ oneof_ok td mf = oneof_ok td ms.

    Lemma inv_skip : forall ms mf f r, inv ms mf (f :: r) -> inv ms mf r.
    Proof. intros ms mf f r [H1 [H2 [H3 H4]]]. repeat split; auto; try tauto. intros g Hg. apply H3. right; auto. Qed.

    Lemma inv_append : forall ms mf f r dv v,
        In f fs0 -> NoDup (map iv_name (f :: r)) -> iv_default f = Some dv ->
        obj_get (iv_name f) ms = None ->
        coercible_j d S v (iv_type f) = true -> json_nodup v = true ->
        inv ms mf (f :: r) -> inv ms (mf ++ [(iv_name f, v)]) r.
    Proof.
      intros ms mf f r dv v Hin Hnd Hdv Habs Hc Hn [H1 [H2 [H3 [H4 [H5 H6]]]]].
      assert (Hk : ~ In (iv_name f) (map fst mf)).
      { apply obj_get_none. rewrite H3 by (left; auto). exact Habs. }
      destruct (field_default_of f dv Hin Hdv) as [_ [_ [_ Hno]]].
      repeat split.
      - rewrite map_app. simpl. apply NoDup_app_single; auto.
      - rewrite forallb_app'. rewrite H2. simpl. rewrite Hn. auto.
      - intros g Hg. rewrite obj_get_app_other; [apply H3; right; auto|].
        inversion Hnd; subst. intros E. apply H7. rewrite <- E. apply in_map. auto.
      - rewrite members_ok_append; auto.
      - rewrite absent_ok_append; auto. unfold has_default. rewrite Hdv. auto.
      - unfold oneof_ok. rewrite Hno. unfold oneof_ok in H6. rewrite Hno in H6. auto.
    Qed.

    Lemma inv_replace : forall ms mf f r x fv,
        In f fs0 -> NoDup (map iv_name (f :: r)) ->
        obj_get (iv_name f) ms = Some x ->
        coercible_j d S fv (iv_type f) = coercible_j d S x (iv_type f) -> json_nodup fv = true -> jnull fv = jnull x ->
        inv ms mf (f :: r) -> inv ms (set_member (iv_name f) fv mf) r.
    Proof.
      intros ms mf f r x fv Hin Hnd Hx Hc Hn Hj [H1 [H2 [H3 [H4 [H5 H6]]]]].
      assert (Hg : obj_get (iv_name f) mf = Some x) by (rewrite H3 by (left; auto); exact Hx).
      assert (Hk : In (iv_name f) (map fst mf)) by (eapply obj_get_some_key; eauto).
      repeat split.
      - rewrite keys_set_member_present; auto.
      - apply forallb_set_member; auto.
      - intros g Hgr. rewrite obj_get_set_member_other; [apply H3; right; auto|].
        inversion Hnd; subst. intros E. apply H7. rewrite E. apply in_map. auto.
      - rewrite (members_ok_set_present mf (iv_name f) x fv f); auto.
      - rewrite <- H5. unfold absent_ok. apply forallb_ext'. intros g. rewrite member_present_set_present; auto.
      - rewrite (oneof_ok_set_present mf (iv_name f) x fv); auto.
    Qed.

    (* recursiveInjectInputFields on a well-shaped object *)
    Lemma loop_ok : forall ms,
        forallb (member_shaped S fs0) ms = true ->
        forallb (fun kv => json_nodup (snd kv)) ms = true ->
        forall fs mf any,
          (forall f, In f fs -> In f fs0) -> NoDup (map iv_name fs) -> inv ms mf fs ->
          match inject_loop S inj (JObj ms) fs (JObj mf) any with
          | IOk final _ => exists mf', final = JObj mf' /\ inv ms mf' []
          | IFuel => True
          | _ => False
          end.
    Proof.
      intros ms Hsh Hnd. rewrite forallb_forall in Hsh, Hnd.
      induction fs as [|f r IH]; intros mf any Hsub Hnames Hinv; simpl.
      - exists mf. auto.
      - assert (Hf0 : In f fs0) by (apply Hsub; left; auto).
        assert (Hsub' : forall g, In g r -> In g fs0) by (intros; apply Hsub; right; auto).
        assert (Hnames' : NoDup (map iv_name r)) by (inversion Hnames; auto).
        destruct (is_scalar_or_enum S (iv_type f)) eqn:Esc.
        + destruct (iv_default f) as [dv|] eqn:Edv; [|apply IH; auto; eapply inv_skip; eauto].
          destruct (obj_get (iv_name f) ms) as [x|] eqn:Ex; [apply IH; auto; eapply inv_skip; eauto|].
          destruct (field_default_of f dv Hf0 Edv) as [Hn1 [Hc1 _]].
          assert (Hk : ~ In (iv_name f) (map fst mf)).
          { destruct Hinv as [_ [_ [H3 _]]]. apply obj_get_none. rewrite H3 by (left; auto). exact Ex. }
          rewrite set_member_absent by auto.
          apply IH; auto. eapply inv_append; eauto.
        + destruct (obj_get (iv_name f) ms) as [x|] eqn:Ex.
          * (* present: recurse into it *)
            destruct (obj_get_in _ _ _ Ex) as [k' [Ek Hin]]. subst k'.
            assert (He : entry S x (iv_type f) = true).
            { specialize (Hsh _ Hin). unfold member_shaped in Hsh. simpl in Hsh.
              rewrite (find_ifield_of_in fs0 f fs0_nodup Hf0) in Hsh. rewrite Esc in Hsh. exact Hsh. }
            assert (Hnx : json_nodup x = true) by (apply (Hnd _ Hin)).
            pose proof (Hinj (iv_type f) x He Hnx) as Hg.
            destruct (inj (iv_type f) x) as [fv rep| | |]; simpl in Hg; try contradiction; auto.
            destruct Hg as [Hc [Hn Hj]]. simpl.
            destruct rep; [|apply IH; auto; eapply inv_skip; eauto].
            apply IH; auto. eapply inv_replace; eauto.
          * destruct (iv_default f) as [dv|] eqn:Edv; [|apply IH; auto; eapply inv_skip; eauto].
            destruct (field_default_of f dv Hf0 Edv) as [Hn1 [Hc1 [He1 _]]].
            pose proof (Hinj (iv_type f) (value_to_json dv) (He1 Esc) Hn1) as Hg.
            destruct (inj (iv_type f) (value_to_json dv)) as [fv rep| | |]; simpl in Hg; try contradiction; auto.
            destruct Hg as [Hc [Hn Hj]]. simpl.
            assert (Hk : ~ In (iv_name f) (map fst mf)).
            { destruct Hinv as [_ [_ [H3 _]]]. apply obj_get_none. rewrite H3 by (left; auto). exact Ex. }
            rewrite set_member_absent by auto.
            apply IH; auto. eapply inv_append; eauto; try (rewrite Hc; exact Hc1).
    Qed.

    Hypothesis Hkind : td_kind td = KInputObject.
    Hypothesis Hfound : find_type (td_name td) (s_types S) = Some td.

    (* the element / value relation the callers need *)
    Definition rel (t : ty) (x x' : json) : Prop :=
      coercible_j d S x' t = coercible_j d S x t /\ json_nodup x' = true /\ jnull x' = jnull x.

    Lemma coercible_obj_at : forall t ms, named_of t = td_name td -> is_list t = false ->
        coercible_j d S (JObj ms) t = obj_ok ms.
    Proof.
      intros t ms Hn Hl. rewrite coercible_j_strip by reflexivity.
      unfold is_list in Hl. pose proof (named_of_strip t) as Hns.
      destruct (strip_nonnull t) as [n|t'|t'] eqn:Es; try discriminate.
      - simpl in Hns. rewrite coercible_j_eq. unfold named_coercible. rewrite Hns, Hn, Hfound, Hkind. reflexivity.
      - exfalso. eapply strip_nonnull_not_nonnull; eauto.
    Qed.

    Lemma fields_ok : forall t ms,
        named_of t = td_name td -> is_list t = false ->
        forallb (member_shaped S fs0) ms = true -> json_nodup (JObj ms) = true ->
        match inject_fields S inj (Some fs0) (JObj ms) with
        | IOk nv _ => rel t (JObj ms) nv
        | IFuel => True
        | _ => False
        end.
    Proof.
      intros t ms Hn Hl Hsh Hnd. unfold inject_fields.
      rewrite json_nodup_obj in Hnd. apply andb_true_iff in Hnd. destruct Hnd as [Hk Hv]. apply nodupb_NoDup in Hk.
      pose proof (loop_ok ms Hsh Hv fs0 ms false (fun f h => h) fs0_nodup) as H.
      assert (Hinv0 : inv ms ms fs0) by (repeat split; auto).
      specialize (H Hinv0).
      destruct (inject_loop S inj (JObj ms) fs0 (JObj ms) false) as [final any| | |]; auto.
      destruct H as [mf' [-> [H1 [H2 [_ [H4 [H5 H6]]]]]]].
      unfold rel. rewrite !(coercible_obj_at t) by auto. unfold obj_ok. rewrite H4, H5, H6.
      repeat split; auto. rewrite json_nodup_obj. apply andb_true_iff. split; auto. apply nodupb_NoDup. auto.
    Qed.

    (* jsonWalker when every element is processed successfully: the counter equals the position *)
    Lemma walk_all : forall (lol : bool) ofs t' (proc : json -> ires),
        forall l,
          (forall x, In x l ->
                     (match x with
                      | JArr _ => if lol then Some (inj t' x) else None
                      | JObj _ => if lol then None else Some (inject_fields S inj ofs x)
                      | _ => None
                      end) = Some (proc x)
                     /\ json_nodup x = true
                     /\ match proc x with IOk nv _ => rel t' x nv | IFuel => True | _ => False end) ->
          forall pre rep,
            match inject_walk q S inj lol ofs t' l (length pre) (length pre) (pre ++ l) rep with
            | IOk out _ => exists l', out = JArr (pre ++ l') /\ Forall2 (rel t') l l'
            | IFuel => True
            | _ => False
            end.
    Proof.
      intros lol ofs t' proc. induction l as [|x r IH]; intros Hall pre rep.
      - simpl. exists []. split; auto.
      - destruct (Hall x (or_introl eq_refl)) as [Hp [Hn Hr]].
        pose proof (fun y (Hy : In y r) => Hall y (or_intror Hy)) as Hall'.
        cbn [inject_walk]. rewrite Hp. cbn [q go_quirks q_inject_drift].
        destruct (proc x) as [nv b| | |]; try contradiction; auto.
        destruct b.
        + rewrite set_nth_app.
          specialize (IH Hall' (pre ++ [nv]) true). rewrite app_length in IH. simpl in IH.
          rewrite PeanoNat.Nat.add_1_r in IH. rewrite <- app_assoc in IH. simpl in IH.
          destruct (inject_walk q S inj lol ofs t' r (Datatypes.S (length pre)) (Datatypes.S (length pre)) (pre ++ nv :: r) true) as [out b2| | |]; auto.
          destruct IH as [l' [-> HF]]. exists (nv :: l'). rewrite <- app_assoc. simpl. split; auto.
        + specialize (IH Hall' (pre ++ [x]) rep). rewrite app_length in IH. simpl in IH.
          rewrite PeanoNat.Nat.add_1_r in IH. rewrite <- app_assoc in IH. simpl in IH.
          destruct (inject_walk q S inj lol ofs t' r (Datatypes.S (length pre)) (Datatypes.S (length pre)) (pre ++ x :: r) rep) as [out b2| | |]; auto.
          destruct IH as [l' [-> HF]]. exists (x :: l'). rewrite <- app_assoc. simpl. split; auto.
          constructor; auto. unfold rel. auto.
    Qed.

    (* jsonWalker when no element is processed *)
    Lemma walk_none : forall (lol : bool) ofs t' l idx i cur rep,
        (forall x, In x l -> match x with JArr _ => lol = false | JObj _ => lol = true | _ => True end) ->
        inject_walk q S inj lol ofs t' l idx i cur rep = IOk (JArr cur) rep.
    Proof.
      intros lol ofs t'. induction l as [|x r IH]; intros idx i cur rep H; simpl; auto.
      pose proof (H x (or_introl eq_refl)) as Hx.
      pose proof (fun y (Hy : In y r) => H y (or_intror Hy)) as Hr.
      destruct x; try (apply IH; auto); subst lol; apply IH; auto.
    Qed.
  End Parts.

  Lemma shp_strip : forall isobj fs j t, shp S isobj fs j t = shp S isobj fs j (strip_nonnull t).
  Proof. induction t; simpl; auto. rewrite shp_eq. auto. Qed.

  Lemma strip_cases : forall t, (exists n, strip_nonnull t = TNamed n /\ is_list t = false /\ n = named_of t)
                                \/ (exists t', strip_nonnull t = TList t' /\ is_list t = true /\ named_of t' = named_of t).
  Proof.
    intros t. unfold is_list. pose proof (named_of_strip t) as Hn.
    destruct (strip_nonnull t) as [n|t'|t'] eqn:E.
    - left. exists n. simpl in Hn. auto.
    - right. exists t'. simpl in Hn. auto.
    - exfalso. eapply strip_nonnull_not_nonnull; eauto.
  Qed.

  Lemma good_res_refl : forall v t b, json_nodup v = true -> good_res v t (IOk v b).
  Proof. intros. simpl. auto. Qed.

  Lemma forallb_rel : forall t l l', Forall2 (rel t) l l' ->
      forallb (fun x => coercible_j d S x t) l' = forallb (fun x => coercible_j d S x t) l
      /\ forallb json_nodup l' = true.
  Proof.
    induction 1 as [|x x' l l' [H1 [H2 H3]] HF [IH1 IH2]]; simpl; auto.
    rewrite H1, IH1, H2, IH2. auto.
  Qed.

  Lemma good_res_arr : forall t t' items l' b,
      strip_nonnull t = TList t' -> Forall2 (rel t') items l' -> good_res (JArr items) t (IOk (JArr l') b).
  Proof.
    intros t t' items l' b Hs HF. destruct (forallb_rel _ _ _ HF) as [H1 H2]. unfold good_res.
    rewrite (coercible_j_strip d S (JArr l') t) by reflexivity.
    rewrite (coercible_j_strip d S (JArr items) t) by reflexivity.
    rewrite Hs. rewrite (coercible_j_eq d S (JArr l')), (coercible_j_eq d S (JArr items)). rewrite H1.
    rewrite json_nodup_arr. repeat split; auto.
  Qed.

  Lemma entry_intro : forall v t td,
      lookup S (named_of t) = Some td -> td_kind td <> KScalar -> is_str v = false ->
      kind_eqb (td_kind td) KInputObject || is_list t = true ->
      shp S (kind_eqb (td_kind td) KInputObject) (td_input_fields td) v t = true ->
      entry S v t = true.
  Proof.
    intros v t td Hl Hk Hs Ho Hsh. unfold entry. rewrite Hl, Hs. cbn [negb andb].
    destruct (jnull v); auto. cbn [orb].
    destruct (td_kind td) eqn:E; try (exfalso; apply Hk; reflexivity); rewrite Ho, Hsh; reflexivity.
  Qed.

  Lemma core_ok : forall fuel,
      (forall t v, entry S v t = true -> json_nodup v = true -> good_res v t (inject q S reparse fuel t v)) ->
      forall t v td,
        lookup S (named_of t) = Some td -> td_kind td <> KScalar ->
        is_str v = false -> jnull v = false ->
        kind_eqb (td_kind td) KInputObject || is_list t = true ->
        shp S (kind_eqb (td_kind td) KInputObject) (td_input_fields td) v t = true ->
        json_nodup v = true ->
        good_res v t
                 (match v with
                  | JNull => IOk v true
                  | JArr items =>
                    if is_list t then
                      match strip_nonnull t with
                      | TList t' => inject_walk q S (inject q S reparse fuel) (is_list t') (fields_by_ref S td) t' items O O items false
                      | _ => IOk v false
                      end
                    else IOk v false
                  | _ => if is_list t then IOk v false else
                           match inject_fields S (inject q S reparse fuel) (fields_by_ref S td) v with
                           | IOk _ false => IOk v false
                           | other => other
                           end
                  end).
  Proof.
    intros fuel IH t v td Hl Hk Hs Hnn Hol Hsh Hnd.
    unfold lookup in Hl. destruct (find_type_in _ _ _ Hl) as [Htd Hname].
    assert (Hfound : find_type (td_name td) (s_types S) = Some td) by (rewrite Hname; exact Hl).
    rewrite shp_strip in Hsh.
    set (isobj := kind_eqb (td_kind td) KInputObject) in *.
    assert (Hobjk : isobj = true -> td_kind td = KInputObject /\ fields_by_ref S td = Some (td_input_fields td)).
    { unfold isobj. intros H. destruct (td_kind td) eqn:E; try discriminate. split; auto. unfold fields_by_ref. rewrite E. auto. }
    destruct (strip_cases t) as [[n [Est [Hlist Hn]]]|[t' [Est [Hlist Hn]]]]; rewrite Est in Hsh; rewrite shp_eq in Hsh; rewrite Hlist in *.
    - (* a named type: the value is an input object *)
      rewrite orb_false_r in Hol. rewrite Hol in Hsh. destruct (Hobjk Hol) as [Hkind Hfb].
      destruct v as [| | | |items|ms]; try discriminate.
      rewrite Hfb.
      assert (Hnt : named_of t = td_name td) by congruence.
      pose proof (fields_ok (inject q S reparse fuel) IH td Htd Hkind Hfound t ms Hnt Hlist Hsh Hnd) as H.
      destruct (inject_fields S (inject q S reparse fuel) (Some (td_input_fields td)) (JObj ms)) as [nv b| | |]; auto.
      destruct b; [exact H|apply good_res_refl; auto].
    - (* a list type: the value is an array *)
      destruct v as [| | | |items|ms]; try discriminate.
      rewrite Est.
      rewrite json_nodup_arr in Hnd. rewrite forallb_forall in Hsh, Hnd.
      assert (Hlk : lookup S (named_of t') = Some td) by (unfold lookup; rewrite Hn; exact Hl).
      destruct (is_list t') eqn:Hlol.
      + (* list of lists: every element is an array and goes through the next level *)
        pose proof (walk_all (inject q S reparse fuel) true (fields_by_ref S td) t' (fun x => inject q S reparse fuel t' x) items) as HW.
        match type of HW with (?A -> _) => assert (Hall : A) end; [|specialize (HW Hall [] false); simpl in HW].
        { intros x Hin. specialize (Hsh x Hin). specialize (Hnd x Hin).
          assert (Hsh' := Hsh). rewrite shp_strip in Hsh.
          destruct (strip_cases t') as [[n2 [E2 [Hl2 _]]]|[t2 [E2 [Hl2 _]]]]; [congruence|].
          rewrite E2 in Hsh. rewrite shp_eq in Hsh.
          destruct x as [| | | |xs|xm]; try discriminate.
          split; [reflexivity|]. split; auto.
          assert (He : entry S (JArr xs) t' = true).
          { apply (entry_intro (JArr xs) t' td); auto. rewrite Hlol. apply orb_true_r. }
          specialize (IH t' (JArr xs) He Hnd).
          destruct (inject q S reparse fuel t' (JArr xs)); simpl in IH; auto. }
        destruct (inject_walk q S (inject q S reparse fuel) true (fields_by_ref S td) t' items 0 0 items false) as [out b| | |]; auto.
        destruct HW as [l' [-> HF]]. eapply good_res_arr; eauto.
      + destruct isobj eqn:Eobj.
        * (* list of input objects: every element is an object *)
          destruct (Hobjk eq_refl) as [Hkind Hfb]. rewrite Hfb.
          pose proof (walk_all (inject q S reparse fuel) false (Some (td_input_fields td)) t'
                               (fun x => inject_fields S (inject q S reparse fuel) (Some (td_input_fields td)) x) items) as HW.
          match type of HW with (?A -> _) => assert (Hall : A) end; [|specialize (HW Hall [] false); simpl in HW].
          { intros x Hin. specialize (Hsh x Hin). specialize (Hnd x Hin).
            rewrite shp_strip in Hsh.
            destruct (strip_cases t') as [[n2 [E2 [Hl2 Hn2]]]|[t2 [E2 [Hl2 _]]]]; [|congruence].
            rewrite E2 in Hsh. rewrite shp_eq in Hsh.
            destruct x as [| | | |xs|xm]; try discriminate.
            split; [reflexivity|]. split; auto.
            assert (Hnt : named_of t' = td_name td) by congruence.
            exact (fields_ok (inject q S reparse fuel) IH td Htd Hkind Hfound t' xm Hnt Hl2 Hsh Hnd). }
          destruct (inject_walk q S (inject q S reparse fuel) false (Some (td_input_fields td)) t' items 0 0 items false) as [out b| | |]; auto.
          destruct HW as [l' [-> HF]]. eapply good_res_arr; eauto.
        * (* list of enums (or of another kind): nothing is processed *)
          rewrite walk_none.
          -- apply good_res_refl. rewrite json_nodup_arr. apply forallb_forall. auto.
          -- intros x Hin. specialize (Hsh x Hin). rewrite shp_strip in Hsh.
             destruct (strip_cases t') as [[n2 [E2 _]]|[t2 [E2 [Hl2 _]]]]; [|congruence].
             rewrite E2 in Hsh. rewrite shp_eq in Hsh. destruct x; auto; discriminate.
  Qed.

  (* processObjectOrListInput on a well-shaped value: same coercibility, keys still unique, null stays null *)
  Theorem inject_ok : forall fuel t v,
      entry S v t = true -> json_nodup v = true -> good_res v t (inject q S reparse fuel t v).
  Proof.
    induction fuel as [|fuel IH]; intros t v He Hn; [exact I|].
    unfold entry in He. apply andb_true_iff in He. destruct He as [Hs He]. apply negb_true_iff in Hs.
    cbn [inject].
    assert (Hoval : match v with JStr s => if q_inject_reparse q then reparse s else Some v | _ => Some v end = Some v)
      by (destruct v; auto; discriminate).
    rewrite Hoval.
    destruct (lookup S (named_of t)) as [td|] eqn:El; [|apply good_res_refl; auto].
    destruct (jnull v) eqn:Hnull.
    { destruct v; try discriminate. destruct (td_kind td); simpl; auto. }
    rewrite orb_false_l in He.
    destruct (td_kind td) eqn:Ek; try (apply good_res_refl; auto; fail);
      cbv iota beta in He; apply andb_true_iff in He; destruct He as [He1 He2];
        (apply (core_ok fuel IH t v td El); [rewrite Ek; discriminate| | | | |]; auto; rewrite Ek; auto).
  Qed.
End InjectProof.

(* ------------------------------------------------------------------ the pipeline with default injection *)
Section PipelineShaped.
  Variable S : schema.
  Variable reparse : bytes -> option json.
  Let q := go_quirks.
  Let d := weak_strict.

  Hypothesis Hfields : fields_nodup S = true.
  Hypothesis Hdefs : field_defaults_ok d S = true.
  Hypothesis Honeof : oneof_no_defaults S = true.

  (* the value of a variable after list coercion and default extraction is well-shaped *)
  Definition var_shaped (ms : list (bytes * json)) (vd : vardef) : bool :=
    match norm_value q S vd ms with
    | None => true
    | Some u => is_scalar_or_enum S (vd_type vd) || entry S u (vd_type vd)
    end.

  Lemma norm_value_ext : forall vd ms ms', obj_get (vd_name vd) ms = obj_get (vd_name vd) ms' ->
                                           norm_value q S vd ms = norm_value q S vd ms'.
  Proof. intros. unfold norm_value. rewrite H. reflexivity. Qed.

  Definition var_result (ms ms3 : list (bytes * json)) (vd : vardef) : Prop :=
    match norm_value q S vd ms with
    | None => obj_get (vd_name vd) ms3 = None
    | Some u => exists nv, obj_get (vd_name vd) ms3 = Some nv
                           /\ coercible_j d S nv (vd_type vd) = coercible_j d S u (vd_type vd)
    end.

  Lemma norm_var_ok : forall vd ms,
      var_default_ok q S d vd = true -> json_nodup (JObj ms) = true -> var_shaped ms vd = true ->
      match norm_var q S reparse vd ms with
      | NOk ms3 => json_nodup (JObj ms3) = true
                   /\ (forall k, k <> vd_name vd -> obj_get k ms3 = obj_get k ms)
                   /\ var_result ms ms3 vd
      | NFuel => True
      | _ => False
      end.
  Proof.
    intros vd ms Hd Hn Hsh.
    pose proof (norm_var_ni_nodup q S d vd ms Hd Hn) as Hn2.
    pose proof (norm_var_ni_same q S vd ms) as Hsame.
    pose proof (norm_var_ni_other q S vd ms) as Hother.
    unfold norm_var. fold (norm_var_ni q S vd ms).
    change (extract_default q vd
              match obj_get (vd_name vd) ms with
              | Some v => set_member (vd_name vd) (coerce_j S v (vd_type vd)) ms
              | None => ms
              end) with (norm_var_ni q S vd ms).
    set (ms2 := norm_var_ni q S vd ms) in *.
    unfold var_shaped in Hsh. unfold var_result.
    rewrite Hsame. destruct (norm_value q S vd ms) as [u|] eqn:Enu.
    2:{ repeat split; auto. }
    assert (Hnu : json_nodup u = true).
    { rewrite json_nodup_obj in Hn2. apply andb_true_iff in Hn2. destruct Hn2 as [_ Hv]. rewrite forallb_forall in Hv.
      destruct (obj_get_in _ _ _ Hsame) as [k' [_ Hin]]. apply (Hv (k', u)). auto. }
    destruct (is_scalar_or_enum S (vd_type vd)) eqn:Esc.
    { repeat split; auto. exists u. auto. }
    simpl in Hsh.
    pose proof (inject_ok d S reparse Hfields Hdefs Honeof (inject_budget S u) (vd_type vd) u Hsh Hnu) as Hg.
    fold q in Hg.
    destruct (inject q S reparse (inject_budget S u) (vd_type vd) u) as [nv rep| | |]; simpl in Hg; try contradiction; auto.
    destruct Hg as [Hc [Hnn _]].
    destruct rep.
    - repeat split.
      + rewrite json_nodup_obj in *. apply andb_true_iff in Hn2. destruct Hn2 as [Hk Hv].
        apply andb_true_iff. split.
        * rewrite keys_set_member_present; auto. eapply obj_get_some_key; eauto.
        * apply forallb_set_member; auto.
      + intros k Hk. rewrite obj_get_set_member_other by auto. apply Hother. auto.
      + exists nv. split; auto. apply obj_get_set_member_same.
    - repeat split; auto. exists u. auto.
  Qed.

  Lemma normalise_ok : forall vds ms,
      NoDup (map vd_name vds) ->
      forallb (var_default_ok q S d) vds = true -> json_nodup (JObj ms) = true ->
      forallb (var_shaped ms) vds = true ->
      match normalise q S reparse vds ms with
      | NOk ms' => json_nodup (JObj ms') = true
                   /\ (forall k, ~ In k (map vd_name vds) -> obj_get k ms' = obj_get k ms)
                   /\ (forall vd, In vd vds -> var_result ms ms' vd)
      | NFuel => True
      | _ => False
      end.
  Proof.
    induction vds as [|vd r IH]; intros ms Hnd Hd Hn Hsh; simpl.
    - repeat split; auto. intros vd [].
    - simpl in Hd, Hsh. apply andb_true_iff in Hd. destruct Hd as [Hd1 Hd2].
      apply andb_true_iff in Hsh. destruct Hsh as [Hs1 Hs2]. inversion Hnd as [|? ? H1 H2]; subst.
      pose proof (norm_var_ok vd ms Hd1 Hn Hs1) as Hv1.
      destruct (norm_var q S reparse vd ms) as [ms3| | |]; try contradiction; auto.
      destruct Hv1 as [Hn3 [Hoth Hres]].
      assert (Hs3 : forallb (var_shaped ms3) r = true).
      { rewrite forallb_forall in *. intros v Hv. specialize (Hs2 v Hv). unfold var_shaped in *.
        rewrite (norm_value_ext v ms3 ms); auto. apply Hoth. intros E. apply H1. rewrite <- E. apply in_map. auto. }
      specialize (IH ms3 H2 Hd2 Hn3 Hs3).
      destruct (normalise q S reparse r ms3) as [ms'| | |]; try contradiction; auto.
      destruct IH as [Hn' [Hoth' Hres']]. repeat split; auto.
      + intros k Hk. rewrite Hoth' by (intros Hin; apply Hk; right; auto). apply Hoth. intros E. apply Hk. left. auto.
      + intros v [<-|Hv].
        * unfold var_result in *. rewrite Hoth' by auto. exact Hres.
        * specialize (Hres' v Hv). unfold var_result in *.
          rewrite (norm_value_ext v ms ms3).
          -- exact Hres'.
          -- symmetry. apply Hoth. intros E. apply H1. rewrite <- E. apply in_map. auto.
  Qed.

  (* the strict reading of what the validator will find = the full reading of the request *)
  Lemma norm_value_coercible : forall vd ms,
      var_default_ok q S d vd = true ->
      coercible d S (vd_type vd) false (norm_value q S vd ms) = coercible_var weak S (JObj ms) vd.
  Proof.
    intros vd ms Hd. unfold coercible_var, coercible, vd_hasdef, norm_value. simpl.
    destruct (obj_get (vd_name vd) ms) as [v|].
    - apply (coerce_correct true true).
    - unfold var_default_ok in Hd. destruct (vd_default vd) as [dv|]; simpl; auto.
      apply andb_true_iff in Hd. tauto.
  Qed.

  Theorem pipeline_shaped_iff_coercible : forall vds ms,
      json_nodup (JObj ms) = true ->
      vars_nodup vds = true ->
      no_upload_ref S vds = true ->
      defaults_nullable_only S = true ->
      forallb (var_default_ok q S d) vds = true ->
      forallb (var_shaped ms) vds = true ->
      normalise q S reparse vds ms <> NFuel ->
      (accepts q S reparse vds (JObj ms) = true <-> coercible_all weak S vds (JObj ms) = true).
  Proof.
    intros vds ms Hj Hv HU HD Hdef Hsh Hfuel.
    apply nodupb_NoDup in Hv.
    pose proof (normalise_ok vds ms Hv Hdef Hj Hsh) as Hn.
    unfold accepts, pipeline.
    destruct (normalise q S reparse vds ms) as [ms'| | |]; try contradiction; try congruence.
    destruct Hn as [Hn' [_ Hres]].
    assert (Hperm : Permutation.Permutation (remap q vds) vds) by (apply remap_perm; eapply no_upload_ref_vars; eauto).
    assert (Hval : validate q S (remap q vds) (JObj ms') = None
                   <-> coercible_all (dialect_of q) S (map strip_default (remap q vds)) (JObj ms') = true).
    { apply validate_iff_coercible; auto. right. eapply no_upload_ref_perm; eauto. }
    rewrite (coercible_all_perm (dialect_of q) S (map strip_default vds) (map strip_default (remap q vds)) (JObj ms')) in Hval
      by (apply Permutation.Permutation_map; auto).
    assert (Heq : coercible_all (dialect_of q) S (map strip_default vds) (JObj ms') = coercible_all weak S vds (JObj ms)).
    { unfold coercible_all.
      assert (Hfm : forall (f : vardef -> bool) l, forallb f (map strip_default l) = forallb (fun x => f (strip_default x)) l).
      { induction l; simpl; auto. rewrite IHl. auto. }
      rewrite Hfm. apply forallb_ext_in. intros vd Hin.
      rewrite <- (norm_value_coercible vd ms) by (rewrite forallb_forall in Hdef; auto).
      specialize (Hres vd Hin). unfold var_result in Hres.
      unfold coercible_var, coercible, strip_default, vd_hasdef. simpl.
      destruct (norm_value q S vd ms) as [u|].
      - destruct Hres as [nv [-> Hc]]. exact Hc.
      - rewrite Hres. reflexivity. }
    rewrite Heq in Hval. rewrite <- Hval.
    destruct (validate q S (remap q vds) (JObj ms')); split; intros; congruence.
  Qed.
End PipelineShaped.
