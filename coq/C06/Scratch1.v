From Gv Require Import lib.Bytes lib.Json lib.Gql C06.Num C06.Model C06.Spec C06.ProofsBase.
From Coq Require Import List NArith Bool Lia.
Import ListNotations.
Goal forall (st1: vstate) (A B C: bool) k (v: json),
  (st1 = None <-> None = None (A:=verr) /\ C = true) -> ((C = true /\ True) <-> (A = true /\ B = true)) ->
  (match v with JNull => mk k [] (EOneOfNull k k) | _ => st1 end = None <-> None = None (A:=verr) /\ A && B && negb (jnull v) = true).
Proof.
  intros st1 A B C k v Hst Hobj.
  destruct v; simpl.
  Show.
Abort.
