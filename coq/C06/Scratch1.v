From Gv Require Import lib.Bytes lib.Json lib.Gql C06.Num C06.Model C06.Spec C06.ProofsBase.
From Coq Require Import List NArith Bool Lia.
Goal forall d S t', coercible_j d S JNull (TNonNull t') = false.
intros. simpl. Show.
Abort.
