From Gv Require Import lib.Bytes lib.Json lib.Gql C06.Num C06.Model C06.Spec.
Require Import ExtrOcamlBasic.
Extraction Language OCaml.
Extraction "model.ml" validate pipeline accepts render_msg go_quirks no_quirks
  coercible_all coercible offending known_name std std_strict weak weak_strict
  jdepth print_type value_to_json.
