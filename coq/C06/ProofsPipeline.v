(* C06: the pipeline (list coercion, variable defaults, [default injection], variables mapper, validator)
   against the full specification. *)
From Gv Require Import lib.Bytes lib.Json lib.Gql C06.Num C06.Model C06.Spec C06.ProofsBase C06.ProofsValidator C06.ProofsCoerce.
From Coq Require Import List NArith Bool Lia ZifyN ZifyNat ZifyBool Permutation.
Import ListNotations.
Open Scope N_scope.

(* ------------------------------------------------------------------ list coercion keeps keys unique *)
Lemma json_nodup_wrap_n : forall k v, json_nodup (wrap_n k v) = json_nodup v.
Proof. induction k; simpl; intros; auto. rewrite IHk. apply andb_true_r. Qed.

Lemma json_nodup_coerce : forall S j t, json_nodup (coerce_j S j t) = json_nodup j.
Proof.
  intros S. induction j using json_ind'; intros t.
  - rewrite coerce_j_eq. destruct (strip_nonnull t); auto.
  - rewrite coerce_j_eq. destruct (strip_nonnull t); auto. apply json_nodup_wrap_n.
  - rewrite coerce_j_eq. destruct (strip_nonnull t); auto. apply json_nodup_wrap_n.
  - rewrite coerce_j_eq. destruct (strip_nonnull t); auto. apply json_nodup_wrap_n.
  - rewrite coerce_j_eq. destruct (strip_nonnull t) as [n|t'|t']; auto.
    rewrite !json_nodup_arr. induction l as [|x r IH]; simpl; auto.
    inversion H; subst. rewrite H2, IH; auto.
  - assert (Hn : forall n, json_nodup (coerce_named S (JObj m) n) = json_nodup (JObj m)).
    { intros n. unfold coerce_named. destruct (lookup S n) as [td|]; auto. destruct (td_kind td); auto.
      rewrite !json_nodup_obj. f_equal.
      - f_equal. rewrite map_map. simpl. reflexivity.
      - induction m as [|[k v] r IH]; simpl; auto. inversion H; subst.
        rewrite IH; auto. f_equal. destruct (find_ifield k (td_input_fields td)); auto; apply H2. }
    rewrite coerce_j_eq. destruct (strip_nonnull t) as [n|t'|t']; auto.
    rewrite json_nodup_wrap_n. apply Hn.
Qed.

(* ------------------------------------------------------------------ the variables mapper is a permutation *)
Lemma cons_hd_eq : forall (A : Type) (x y : A) l1 l2, x :: l1 = y :: l2 -> x = y.
Proof. intros. injection H. auto. Qed.

Lemma letter_name_inj : forall a b, letter_name a = letter_name b -> a = b.
Proof.
  intros a b H. unfold letter_name in H.
  assert (Hlen : (Datatypes.S (Nat.div a 26) = Datatypes.S (Nat.div b 26))%nat).
  { apply (f_equal (@length byte)) in H. rewrite !repeat_length in H. exact H. }
  remember (Nat.modulo a 26) as ma. remember (Nat.modulo b 26) as mb.
  remember (Nat.div a 26) as da. remember (Nat.div b 26) as db.
  pose proof (cons_hd_eq byte (97 + N.of_nat ma) (97 + N.of_nat mb) (repeat (97 + N.of_nat ma) da) (repeat (97 + N.of_nat mb) db) H) as Hh.
  assert (Hm : ma = mb) by lia.
  assert (Hd : da = db) by lia.
  pose proof (PeanoNat.Nat.div_mod a 26). pose proof (PeanoNat.Nat.div_mod b 26). subst. lia.
Qed.

Definition no_upload_vars (vds : list vardef) : bool := forallb (fun vd => negb (is_upload_var vd)) vds.

(* a direct route: what matters is the list of (lookup name, type) pairs *)
Definition nt (vd : vardef) : name * ty := (vd_name vd, vd_type vd).

Lemma insert_by_name_perm : forall x l, Permutation (insert_by_name x l) (x :: l).
Proof.
  induction l as [|y r IH]; simpl; auto.
  destruct (bytes_ltb (fst x) (fst y)); auto.
  rewrite IH. apply perm_swap.
Qed.

Lemma sort_by_name_perm : forall l, Permutation (sort_by_name l) l.
Proof.
  intros l. unfold sort_by_name.
  assert (H : forall l acc, Permutation (fold_left (fun acc x => insert_by_name x acc) l acc) (acc ++ l)).
  { induction l0 as [|x r IH]; intros acc; simpl.
    - rewrite app_nil_r. auto.
    - rewrite IH. rewrite insert_by_name_perm.
      change (x :: acc ++ r) with ((x :: acc) ++ r). rewrite (Permutation_middle acc r x). auto. }
  rewrite H. auto.
Qed.

Lemma assoc_name_map : forall (named : list (name * vardef)) k vd,
    NoDup (map fst named) -> In (k, vd) named ->
    assoc_name k (map (fun cv => (fst cv, vd_name (snd cv))) named) = Some (vd_name vd).
Proof.
  induction named as [|[k' vd'] r IH]; simpl; intros k vd Hnd Hin; [contradiction|].
  inversion Hnd; subst.
  destruct Hin as [E|Hin].
  - inversion E; subst. rewrite bytes_eqb_refl. auto.
  - destruct (bytes_eqb k k') eqn:E.
    + apply bytes_eqb_eq in E. subst. exfalso. apply H1. apply in_map_iff. exists (k', vd). auto.
    + apply IH; auto.
Qed.

Lemma assign_names_keys : forall vds k, no_upload_vars vds = true ->
    map fst (assign_names vds k) = map letter_name (seq k (length vds)) /\ map snd (assign_names vds k) = vds.
Proof.
  induction vds as [|vd r IH]; intros k H; simpl; auto.
  simpl in H. apply andb_true_iff in H. destruct H as [H1 H2]. apply negb_true_iff in H1. rewrite H1. simpl.
  destruct (IH (Datatypes.S k) H2) as [E1 E2]. rewrite E1, E2. auto.
Qed.

Lemma flat_map_mapping : forall (named : list (name * vardef)),
    forallb (fun cv => negb (is_upload_var (snd cv))) named = true ->
    flat_map (fun cv => if is_upload_var (snd cv) then [] else [(fst cv, vd_name (snd cv))]) named
    = map (fun cv => (fst cv, vd_name (snd cv))) named.
Proof.
  induction named as [|cv r IH]; simpl; intros H; auto.
  apply andb_true_iff in H. destruct H as [H1 H2]. apply negb_true_iff in H1. rewrite H1. simpl. rewrite IH; auto.
Qed.

Lemma vardef_eta : forall vd, {| vd_name := vd_name vd; vd_type := vd_type vd; vd_default := vd_default vd; vd_dirs := vd_dirs vd |} = vd.
Proof. destruct vd; reflexivity. Qed.

Lemma reserved_names_nil : forall vds, no_upload_vars vds = true -> reserved_names vds = [].
Proof.
  unfold reserved_names. induction vds as [|vd r IH]; simpl; intros H; auto.
  apply andb_true_iff in H. destruct H as [H1 H2]. apply negb_true_iff in H1. rewrite H1. auto.
Qed.

Lemma assign_names_avoid_nil : forall vds k, assign_names_avoid [] vds k = assign_names vds k.
Proof. induction vds as [|vd r IH]; simpl; intros; auto. rewrite !IH. reflexivity. Qed.

(* without Upload variables the mapper (as it was and as repaired) only reorders the definitions *)
Lemma remap_perm : forall q vds, no_upload_vars vds = true -> Permutation (remap q vds) vds.
Proof.
  intros q vds H. unfold remap.
  rewrite (reserved_names_nil vds H), assign_names_avoid_nil.
  assert (En : (if q_remap_collision q then assign_names vds O else assign_names vds O) = assign_names vds O)
    by (destruct (q_remap_collision q); auto).
  rewrite En. clear En.
  destruct (assign_names_keys vds O H) as [Ek Es].
  set (named := assign_names vds O) in *.
  assert (Hnu : forallb (fun cv => negb (is_upload_var (snd cv))) named = true).
  { rewrite forallb_forall. intros cv Hin. unfold no_upload_vars in H. rewrite forallb_forall in H. apply H.
    rewrite <- Es. apply in_map. auto. }
  rewrite flat_map_mapping by auto.
  assert (Hnd : NoDup (map fst named)).
  { rewrite Ek. apply FinFun.Injective_map_NoDup; [intros a b; apply letter_name_inj | apply seq_NoDup]. }
  assert (Hmap : forall l, (forall cv, In cv l -> In cv named) ->
                           map (fun cv : name * vardef =>
                                  {| vd_name := match assoc_name (fst cv) (map (fun cv0 => (fst cv0, vd_name (snd cv0))) named) with
                                                | Some o => o | None => fst cv end;
                                     vd_type := vd_type (snd cv); vd_default := vd_default (snd cv); vd_dirs := vd_dirs (snd cv) |}) l
                           = map snd l).
  { induction l as [|cv r IH]; simpl; intros Hl; auto. rewrite IH by (intros; apply Hl; auto). f_equal.
    assert (Hin : In cv named) by (apply Hl; auto).
    destruct cv as [k vd]. simpl.
    rewrite (assoc_name_map named k vd Hnd Hin). apply vardef_eta. }
  rewrite Hmap.
  - rewrite <- Es. apply Permutation_map. apply sort_by_name_perm.
  - intros cv Hin. eapply Permutation_in; [apply sort_by_name_perm|]. auto.
Qed.

Lemma no_upload_ref_vars : forall S vds, no_upload_ref S vds = true -> no_upload_vars vds = true.
Proof.
  intros S vds H. unfold no_upload_ref in H. apply andb_true_iff in H. destruct H as [H _].
  unfold no_upload_vars, is_upload_var. exact H.
Qed.

Lemma no_upload_ref_perm : forall S vds vds', Permutation vds' vds -> no_upload_ref S vds = true -> no_upload_ref S vds' = true.
Proof.
  intros S vds vds' Hp H. unfold no_upload_ref in *. apply andb_true_iff in H. destruct H as [H1 H2].
  apply andb_true_iff. split; auto. rewrite forallb_forall in *. intros vd Hin. apply H1.
  eapply Permutation_in; eauto.
Qed.

Lemma coercible_all_perm : forall d S vds vds' vars, Permutation vds' vds ->
    coercible_all d S vds' vars = true <-> coercible_all d S vds vars = true.
Proof.
  intros d S vds vds' vars Hp. unfold coercible_all. rewrite !forallb_forall. split; intros H x Hin; apply H.
  - eapply Permutation_in; [apply Permutation_sym|]; eauto.
  - eapply Permutation_in; eauto.
Qed.

(* ------------------------------------------------------------------ variable defaults + coercion *)
(* the first two steps of [norm_var]: default extraction, then list coercion (order of be45b91) *)
Definition norm_var_ni (q : quirks) (S : schema) (vd : vardef) (ms : list (bytes * json)) : list (bytes * json) :=
  let ms1 := extract_default q vd ms in
  match obj_get (vd_name vd) ms1 with
  | Some v => set_member (vd_name vd) (coerce_j S v (vd_type vd)) ms1
  | None => ms1
  end.

(* what default extraction puts into the variables for an absent variable *)
Definition extracted (vd : vardef) (d : value) : json :=
  let dj := value_to_json d in
  if is_list (vd_type vd) then
    match dj with
    | JArr _ => dj
    | JNull => dj
    | _ => wrap_n (list_depth (vd_type vd)) dj
    end
  else dj.

(* the value the validator will find for a variable *)
Definition norm_value (S : schema) (vd : vardef) (ms : list (bytes * json)) : option json :=
  match obj_get (vd_name vd) ms with
  | Some v => Some (coerce_j S v (vd_type vd))
  | None => match vd_default vd with Some d => Some (coerce_j S (extracted vd d) (vd_type vd)) | None => None end
  end.

Lemma obj_get_set_member_same : forall k v ms, obj_get k (set_member k v ms) = Some v.
Proof.
  induction ms as [|[k' v'] r IH]; simpl.
  - rewrite bytes_eqb_refl. auto.
  - destruct (bytes_eqb k k') eqn:E; simpl.
    + apply bytes_eqb_eq in E. subst. rewrite bytes_eqb_refl. auto.
    + rewrite E. auto.
Qed.

Lemma obj_get_set_member_other : forall k k' v ms, k <> k' -> obj_get k' (set_member k v ms) = obj_get k' ms.
Proof.
  induction ms as [|[k2 v2] r IH]; simpl; intros Hne.
  - destruct (bytes_eqb k' k) eqn:E; auto. apply bytes_eqb_eq in E. congruence.
  - destruct (bytes_eqb k k2) eqn:E; simpl.
    + apply bytes_eqb_eq in E. subst. destruct (bytes_eqb k' k2) eqn:E2; auto.
      apply bytes_eqb_eq in E2. congruence.
    + rewrite IH; auto.
Qed.

Lemma extract_default_eq : forall q vd ms,
    extract_default q vd ms =
    match vd_default vd, obj_get (vd_name vd) ms with
    | Some d, None => (vd_name vd, extracted vd d) :: ms
    | _, _ => ms
    end.
Proof.
  intros. unfold extract_default, extracted. destruct (vd_default vd); auto; destruct (obj_get (vd_name vd) ms); auto.
Qed.

Lemma norm_var_ni_same : forall q S vd ms, obj_get (vd_name vd) (norm_var_ni q S vd ms) = norm_value S vd ms.
Proof.
  intros. unfold norm_var_ni, norm_value. rewrite extract_default_eq.
  destruct (obj_get (vd_name vd) ms) as [v|] eqn:E.
  - assert (E1 : match vd_default vd with Some _ => ms | None => ms end = ms) by (destruct (vd_default vd); auto).
    rewrite E1, E. apply obj_get_set_member_same.
  - destruct (vd_default vd) as [dv|].
    + simpl. rewrite bytes_eqb_refl. simpl. rewrite bytes_eqb_refl. reflexivity.
    + rewrite E. exact E.
Qed.

Lemma norm_var_ni_other : forall q S vd ms k, k <> vd_name vd -> obj_get k (norm_var_ni q S vd ms) = obj_get k ms.
Proof.
  intros q S vd ms k H. unfold norm_var_ni.
  set (ms1 := extract_default q vd ms).
  assert (E1 : obj_get k ms1 = obj_get k ms).
  { unfold ms1. rewrite extract_default_eq. destruct (vd_default vd); auto. destruct (obj_get (vd_name vd) ms); auto.
    simpl. destruct (bytes_eqb k (vd_name vd)) eqn:E; auto. apply bytes_eqb_eq in E. congruence. }
  destruct (obj_get (vd_name vd) ms1); auto. rewrite obj_get_set_member_other; auto.
Qed.

(* keys stay unique *)
Lemma keys_set_member_present : forall k v ms, In k (map fst ms) -> map fst (set_member k v ms) = map fst ms.
Proof.
  induction ms as [|[k' v'] r IH]; simpl; intros Hin; [contradiction|].
  destruct (bytes_eqb k k') eqn:E; simpl; auto.
  f_equal. apply IH. destruct Hin as [E2|Hin]; auto. subst. rewrite bytes_eqb_refl in E. discriminate.
Qed.

Lemma obj_get_some_key : forall k ms v, obj_get k ms = Some v -> In k (map fst ms).
Proof.
  intros. destruct (obj_get_in _ _ _ H) as [k' [E Hin]]. subst. apply in_map_iff. exists (k, v). auto.
Qed.

Lemma forallb_set_member : forall (P : bytes * json -> bool) k v ms,
    (forall k', P (k', v) = true) -> forallb P ms = true -> forallb P (set_member k v ms) = true.
Proof.
  induction ms as [|[k' v'] r IH]; simpl; intros Hv H.
  - rewrite Hv. auto.
  - apply andb_true_iff in H. destruct H as [H1 H2].
    destruct (bytes_eqb k k'); simpl; [rewrite Hv, H2 | rewrite H1, IH]; auto.
Qed.

(* operation validity: the default of a variable is a value of its type (under the full reading [d]) *)
Definition var_default_ok (S : schema) (d : dialect) (vd : vardef) : bool :=
  match vd_default vd with
  | None => true
  | Some dv => json_nodup (value_to_json dv) && coercible_j d S (value_to_json dv) (vd_type vd)
  end.

Lemma json_nodup_extracted : forall vd dv, json_nodup (extracted vd dv) = json_nodup (value_to_json dv).
Proof.
  intros. unfold extracted. destruct (is_list (vd_type vd)); auto.
  destruct (value_to_json dv); auto; apply json_nodup_wrap_n.
Qed.

(* wrapping a single value to the full depth does not change the full reading (the list rule does the same) *)
Lemma coercible_wrap_full : forall dI dD S j, jnull j = false -> (forall items, j <> JArr items) ->
    forall t, coercible_j (Build_dialect true dI dD) S (wrap_n (list_depth t) j) t = coercible_j (Build_dialect true dI dD) S j t.
Proof.
  intros dI dD S j Hnn Hna. induction t as [n|t' IH|t' IH]; cbn [list_depth wrap_n]; auto.
  - rewrite (coercible_j_eq _ S (JArr _) (TList t')). cbn [forallb]. rewrite andb_true_r. rewrite IH.
    rewrite (coercible_j_eq _ S j (TList t')). destruct j; auto; try discriminate. exfalso. eapply Hna; eauto.
  - rewrite (coercible_j_eq _ S (wrap_n _ _) (TNonNull t')). rewrite jnull_wrap_n.
    rewrite (coercible_j_eq _ S j (TNonNull t')). rewrite Hnn.
    destruct (list_depth t'); simpl; apply IH.
Qed.

Lemma coercible_extracted_full : forall dI dD S vd dv,
    coercible_j (Build_dialect true dI dD) S (extracted vd dv) (vd_type vd)
    = coercible_j (Build_dialect true dI dD) S (value_to_json dv) (vd_type vd).
Proof.
  intros. unfold extracted. destruct (is_list (vd_type vd)); auto.
  destruct (value_to_json dv) eqn:E; auto; apply coercible_wrap_full; auto; intros; discriminate.
Qed.

Lemma norm_var_ni_nodup : forall q S d vd ms,
    var_default_ok S d vd = true -> json_nodup (JObj ms) = true -> json_nodup (JObj (norm_var_ni q S vd ms)) = true.
Proof.
  intros q S d vd ms Hd H. unfold norm_var_ni.
  set (ms1 := extract_default q vd ms).
  assert (H1 : json_nodup (JObj ms1) = true).
  { unfold ms1. rewrite extract_default_eq. unfold var_default_ok in Hd.
    destruct (vd_default vd) as [dv|]; auto. destruct (obj_get (vd_name vd) ms) eqn:E; auto.
    apply andb_true_iff in Hd. destruct Hd as [Hd _].
    rewrite json_nodup_obj in *. apply andb_true_iff in H. destruct H as [Hk Hv].
    simpl. apply andb_true_iff. split.
    - apply andb_true_iff. split; auto. apply negb_true_iff.
      destruct (mem_bytes (vd_name vd) (map fst ms)) eqn:Em; auto.
      apply mem_bytes_in in Em. apply obj_get_none in E. contradiction.
    - rewrite json_nodup_extracted, Hd. auto. }
  destruct (obj_get (vd_name vd) ms1) as [v|] eqn:E; auto.
  rewrite json_nodup_obj in *. apply andb_true_iff in H1. destruct H1 as [Hk Hv].
  apply andb_true_iff. split.
  - rewrite keys_set_member_present; auto. eapply obj_get_some_key; eauto.
  - apply forallb_set_member; auto. intros k'. simpl. rewrite json_nodup_coerce.
    rewrite forallb_forall in Hv. destruct (obj_get_in _ _ _ E) as [k2 [_ Hin]]. apply (Hv (k2, v)). auto.
Qed.

(* ------------------------------------------------------------------ well-formedness of the operation *)
Definition vars_nodup (vds : list vardef) : bool := nodupb (map vd_name vds).
