(* C06 specification: GraphQL input coercion of variable values, written from the GraphQL
   specification (October 2021: 3.5 Scalars "Input Coercion" of Int/Float/String/Boolean/ID, 3.9 Enums,
   3.10 Input Objects (+ the OneOf Input Objects RFC), 3.11 List, 3.12 Non-Null, 6.1.2 CoerceVariableValues)
   and NOT from the Go code: no traversal state, no paths, no error order; the recursion is on the JSON
   value, so it needs no fuel and is total on every schema (recursive input objects included).

   [coercible S t oj] answers: can the (possibly absent) JSON value [oj] be coerced to type [t]?

   Readings fixed here (the specification leaves them to the transport):
     * Int    = a JSON number token without fraction or exponent whose value is in [-2^31, 2^31);
     * Float  = any JSON number;   ID = a JSON string or an integer token (any size);
     * custom scalars accept every non-null JSON value; a name that is no input type constrains nothing;
     * a JSON object is taken as its member LIST: every member must name a field (so with duplicate
       keys every occurrence is checked), OneOf counts members.
   [dialect] only exists to state the weaker theorems: [std] is the specification. *)
From Gv Require Import lib.Bytes lib.Json lib.Gql C06.Num.
From Coq Require Import List NArith Bool.
Import ListNotations.
Open Scope N_scope.

Record dialect := {
  d_list_coercion : bool;   (* 3.11: a non-list, non-null value for a list type is a list of size one *)
  d_int_any_number : bool;  (* weakened: Int accepts every JSON number *)
  d_id_any_number : bool    (* weakened: ID accepts every JSON number *)
}.
Definition std : dialect := Build_dialect true false false.
(* what is left of the specification once list coercion has been applied to the value (normalised
   variables) *)
Definition std_strict : dialect := Build_dialect false false false.
Definition weak : dialect := Build_dialect true true true.
Definition weak_strict : dialect := Build_dialect false true true.

Definition sp_Int : name := [73;110;116].
Definition sp_Float : name := [70;108;111;97;116].
Definition sp_String : name := [83;116;114;105;110;103].
Definition sp_Boolean : name := [66;111;111;108;101;97;110].
Definition sp_ID : name := [73;68].
Definition sp_oneOf : name := [111;110;101;79;102].
Definition sp_inaccessible : name := [105;110;97;99;99;101;115;115;105;98;108;101].

Definition jnull (j : json) : bool := match j with JNull => true | _ => false end.
Definition ty_nonnull (t : ty) : bool := match t with TNonNull _ => true | _ => false end.
Definition dirs_have (dn : name) (ds : list directive) : bool := existsb (fun x => bytes_eqb (d_name x) dn) ds.
Definition field_named (k : name) (fs : list inputvalue_def) : option inputvalue_def :=
  find (fun f => bytes_eqb k (iv_name f)) fs.
Definition member_present (k : name) (ms : list (bytes * json)) : bool :=
  existsb (fun kv => bytes_eqb k (fst kv)) ms.
Definition field_has_default (f : inputvalue_def) : bool := match iv_default f with Some _ => true | None => false end.

Section Coercion.
  Variable d : dialect.
  Variable S : schema.

  (* 3.5: built-in scalars on a non-null JSON value *)
  Definition scalar_coercible (n : name) (j : json) : bool :=
    if bytes_eqb n sp_Int then match j with JNum raw => d_int_any_number d || num_is_int32 raw | _ => false end
    else if bytes_eqb n sp_Float then match j with JNum _ => true | _ => false end
    else if bytes_eqb n sp_String then match j with JStr _ => true | _ => false end
    else if bytes_eqb n sp_Boolean then match j with JBool _ => true | _ => false end
    else if bytes_eqb n sp_ID then
      match j with JStr _ => true | JNum raw => d_id_any_number d || num_is_integer raw | _ => false end
    else true.

  (* 3.9: the name of an enum value of the type; values marked @inaccessible are not part of the
     client-facing schema *)
  Definition enum_coercible (vs : list enum_value_def) (j : json) : bool :=
    match j with
    | JStr s => match find (fun v => bytes_eqb s (ev_name v)) vs with
                | Some v => negb (dirs_have sp_inaccessible (ev_dirs v))
                | None => false
                end
    | _ => false
    end.

  (* a field that is not among the members: fine iff it has a default or is nullable (3.10) *)
  Definition absent_field_ok (f : inputvalue_def) : bool := field_has_default f || negb (ty_nonnull (iv_type f)).

  (* coercion of a PRESENT value [j] to type [t] *)
  Fixpoint coercible_j (j : json) {struct j} : ty -> bool :=
    fix co_t (t : ty) {struct t} : bool :=
      match t with
      | TNonNull t' => negb (jnull j) && co_t t'                       (* 3.12 *)
      | TList t' =>                                                     (* 3.11 *)
        match j with
        | JNull => true
        | JArr items => (fix all (l : list json) : bool :=
                           match l with [] => true | x :: r => coercible_j x t' && all r end) items
        | _ => d_list_coercion d && co_t t'
        end
      | TNamed n =>
        match j with
        | JNull => true
        | _ =>
          match find_type n (s_types S) with
          | None => true
          | Some td =>
            match td_kind td with
            | KScalar => scalar_coercible n j
            | KEnum => enum_coercible (td_enum_values td) j
            | KInputObject =>                                           (* 3.10 *)
              match j with
              | JObj ms =>
                (* every member names a field and its value coerces to the field's type ... *)
                (fix mem (l : list (bytes * json)) : bool :=
                   match l with
                   | [] => true
                   | (k, v) :: r =>
                     match field_named k (td_input_fields td) with
                     | Some f => coercible_j v (iv_type f)
                     | None => false
                     end && mem r
                   end) ms
                (* ... every field without a member has a default or is nullable ... *)
                && forallb (fun f => member_present (iv_name f) ms || absent_field_ok f) (td_input_fields td)
                (* ... and a OneOf object has exactly one member, which is not null *)
                && (if dirs_have sp_oneOf (td_dirs td)
                    then match ms with [(_, v)] => negb (jnull v) | _ => false end
                    else true)
              | _ => false
              end
            | _ => true
            end
          end
        end
      end.

  (* 6.1.2 CoerceVariableValues, one variable: [hasdef] = the definition carries a default value
     (which operation validation has already checked against the type) *)
  Definition coercible (t : ty) (hasdef : bool) (oj : option json) : bool :=
    match oj with
    | Some j => coercible_j j t
    | None => hasdef || negb (ty_nonnull t)
    end.

  Definition vd_hasdef (vd : vardef) : bool := match vd_default vd with Some _ => true | None => false end.
  Definition coercible_var (vars : json) (vd : vardef) : bool :=
    coercible (vd_type vd) (vd_hasdef vd) (jget (vd_name vd) vars).
  Definition coercible_all (vds : list vardef) (vars : json) : bool := forallb (coercible_var vars) vds.
End Coercion.

(* ---- positions: what a reported (variable, path) denotes ---- *)
Inductive step := StField (n : name) | StIndex (i : N).

Fixpoint unwrap_nonnull (t : ty) : ty := match t with TNonNull t' => unwrap_nonnull t' | _ => t end.

(* the (type, has-default, value) found by following [p] from a typed, possibly absent value *)
Fixpoint resolve (S : schema) (p : list step) (t : ty) (hasdef : bool) (oj : option json) : option (ty * bool * option json) :=
  match p with
  | [] => Some (t, hasdef, oj)
  | StIndex i :: r =>
    match unwrap_nonnull t, oj with
    | TList t', Some (JArr items) =>
      match nth_error items (N.to_nat i) with
      | Some x => resolve S r t' false (Some x)
      | None => None
      end
    | _, _ => None
    end
  | StField k :: r =>
    match unwrap_nonnull t, oj with
    | TNamed n, Some (JObj ms) =>
      match find_type n (s_types S) with
      | Some td =>
        match td_kind td, field_named k (td_input_fields td) with
        | KInputObject, Some f => resolve S r (iv_type f) (field_has_default f) (obj_get k ms)
        | _, _ => None
        end
      | None => None
      end
    | _, _ => None
    end
  end.

(* "the position (variable, path) is offending": it exists and what is there does not coerce *)
Definition offending (d : dialect) (S : schema) (vds : list vardef) (vars : json) (var : name) (p : list step) : bool :=
  match find (fun vd => bytes_eqb var (vd_name vd)) vds with
  | None => false
  | Some vd =>
    match resolve S p (vd_type vd) (vd_hasdef vd) (jget var vars) with
    | Some (t, hd, oj) => negb (coercible d S t hd oj)
    | None => false
    end
  end.

(* ---- no echo: the names a message may mention ---- *)
Definition schema_names (S : schema) (vds : list vardef) : list name :=
  flat_map (fun vd => [vd_name vd; named_of (vd_type vd)]) vds
  ++ flat_map (fun td => td_name td :: flat_map (fun f => [iv_name f; named_of (iv_type f)]) (td_input_fields td)) (s_types S).
Definition known_name (S : schema) (vds : list vardef) (n : name) : bool := mem_bytes n (schema_names S vds).
