(* C06: the validator accepts exactly what the (strict) specification accepts -- for every setting of
   the quirk flags whose deviation is either switched off or cannot fire on the schema at hand.
   Instantiated in Proofs.v for the code as it is (flags on, schema-level side conditions) and for the
   repaired code (flags off, no side condition). *)
From Gv Require Import lib.Bytes lib.Json lib.Gql C06.Num C06.Model C06.Spec C06.ProofsBase.
From Coq Require Import List NArith Bool Lia ZifyN ZifyNat ZifyBool.
Import ListNotations.
Open Scope N_scope.

(* ---- side conditions on the schema / operation (booleans) ---- *)
(* input object field names are pairwise different (GraphQL schema validity) *)
Definition fields_nodup (S : schema) : bool :=
  forallb (fun td => nodupb (map iv_name (td_input_fields td))) (s_types S).
Fixpoint nonnull_free (t : ty) : bool :=
  match t with TNamed _ => true | TList t' => nonnull_free t' | TNonNull _ => false end.
(* no input field with a default has a "!" anywhere in its type: the default can then never be
   consulted for a null *)
Definition defaults_nullable_only (S : schema) : bool :=
  forallb (fun td => forallb (fun f => negb (has_default f) || nonnull_free (iv_type f)) (td_input_fields td)) (s_types S).
(* the name Upload is not used as the base type of a variable or of an input field *)
Definition no_upload_ref (S : schema) (vds : list vardef) : bool :=
  forallb (fun vd => negb (bytes_eqb (named_of (vd_type vd)) n_Upload)) vds
  && forallb (fun td => forallb (fun f => negb (bytes_eqb (named_of (iv_type f)) n_Upload)) (td_input_fields td)) (s_types S).

(* the dialect a quirk setting validates: never list coercion (that is normalisation's job) *)
Definition dialect_of (q : quirks) : dialect := Build_dialect false (q_int_any_number q) (q_id_any_number q).

Lemma find_type_in : forall n ts td, find_type n ts = Some td -> In td ts /\ td_name td = n.
Proof.
  induction ts; simpl; intros td H; [discriminate|].
  destruct (bytes_eqb n (td_name a)) eqn:E.
  - inversion H; subst. apply bytes_eqb_eq in E. auto.
  - destruct (IHts _ H). auto.
Qed.

Section ValidatorProof.
  Variable q : quirks.
  Variable S : schema.
  Variable var : name.
  Let d := dialect_of q.

  Definition IU (t : ty) : Prop := q_upload_exempt q = false \/ bytes_eqb (named_of t) n_Upload = false.
  Definition IDf (f : inputvalue_def) (t : ty) : Prop :=
    (q_field_null_default q = false /\ q_elem_null_default q = false) \/ (has_default f = true -> nonnull_free t = true).

  Lemma trav_elems_iff : forall (go : json -> path -> vstate -> vstate) (P : json -> bool) items,
      (forall x, In x items -> forall p st, go x p st = None <-> st = None /\ P x = true) ->
      forall i p st, trav_elems go items i p st = None <-> st = None /\ forallb P items = true.
  Proof.
    induction items as [|x r IH]; intros Hgo i p st; simpl.
    - tauto.
    - rewrite IH by (intros; apply Hgo; right; auto).
      rewrite (Hgo x (or_introl eq_refl)). rewrite andb_true_iff. tauto.
  Qed.

  (* what traverseFieldDefinitionType lets through at a (possibly absent) value *)
  Definition accf (f : inputvalue_def) (top : bool) (t : ty) (oj : option json) : bool :=
    match oj with
    | None => negb (is_nonnull t) || (has_default f && top)
    | Some j => coercible_j d S j t
    end.

  Lemma upload_direct_named_of : forall t, bytes_eqb (named_of t) n_Upload = false -> upload_direct t = false.
  Proof. destruct t; simpl; auto. Qed.

  Lemma trav_field_iff : forall (named : name -> json -> path -> vstate -> vstate) f B,
      (forall n j p st, jnull j = false -> (jdepth j < B)%nat -> json_nodup j = true ->
                        (named n j p st = None <-> st = None /\ coercible_j d S j (TNamed n) = true)) ->
      forall t top oj p st,
        IU t -> IDf f t ->
        (forall j, oj = Some j -> (jdepth j < B)%nat /\ json_nodup j = true) ->
        (trav_field q var named f top t oj p st = None <-> st = None /\ accf f top t oj = true).
  Proof.
    intros named f B Hnamed. unfold IU, IDf.
    induction t as [n|t' IH|t' IH]; intros top oj p st HU HD Hoj.
    - (* named *)
      simpl. destruct oj as [j|]; simpl.
      + destruct (Hoj j eq_refl) as [Hd Hn].
        destruct j; try (apply Hnamed; auto; fail).
        rewrite coercible_j_eq. tauto.
      + tauto.
    - (* list *)
      simpl. destruct oj as [j|]; simpl.
      + destruct (Hoj j eq_refl) as [Hd Hn].
        destruct j; rewrite coercible_j_eq; simpl; try (unfold mk; split; [discriminate|intros [_ H]; discriminate]).
        * tauto.
        * rewrite json_nodup_arr in Hn. rewrite forallb_forall in Hn.
          apply trav_elems_iff. intros x Hin p' st'.
          rewrite (IH false (Some x) p' st'); auto.
          -- simpl. tauto.
          -- intros j E. inversion E; subst. split; [|apply Hn; auto].
             pose proof (jdepth_arr_in _ _ Hin). lia.
      + tauto.
    - (* non-null *)
      simpl.
      assert (HU' : q_upload_exempt q = false \/ bytes_eqb (named_of t') n_Upload = false) by exact HU.
      assert (HD' : (q_field_null_default q = false /\ q_elem_null_default q = false) \/ (has_default f = true -> nonnull_free t' = true)).
      { destruct HD as [HD|HD]; [left; auto|]. right. intros Hdef. specialize (HD Hdef). simpl in HD. discriminate. }
      assert (Hup : upload_direct t' && q_upload_exempt q = false).
      { destruct HU as [HU|HU]; [rewrite HU; apply andb_false_r|]. simpl in HU. rewrite upload_direct_named_of; auto. }
      destruct (absent_or_null oj) eqn:Han.
      + rewrite Hup.
        assert (Hexc : has_default f && default_excuses q top oj = has_default f && (match oj with None => top | Some _ => false end)).
        { destruct HD as [[H1 H2]|HD].
          - unfold default_excuses. rewrite H1, H2. destruct oj; destruct top; auto.
          - destruct (has_default f) eqn:Hdef; auto. specialize (HD eq_refl). simpl in HD. discriminate. }
        rewrite Hexc.
        destruct oj as [j|]; simpl in Han.
        * destruct j; try discriminate. rewrite andb_false_r.
          rewrite IH; auto. unfold mk, accf. rewrite (coercible_j_eq d S JNull (TNonNull t')). simpl.
          split; [intros [H _]; discriminate | intros [_ H]; discriminate].
        * destruct (has_default f && top) eqn:Hdt.
          -- unfold accf. cbn [is_nonnull negb]. rewrite Hdt. simpl. tauto.
          -- rewrite IH; auto. unfold mk, accf. cbn [is_nonnull negb]. rewrite Hdt.
             split; [intros [H _]; discriminate | intros [_ H]; discriminate].
      + destruct oj as [j|]; simpl in Han; [|discriminate].
        rewrite IH; auto. simpl. rewrite (coercible_j_eq d S j (TNonNull t')).
        rewrite <- is_null_jnull. rewrite Han. simpl. tauto.
  Qed.

  Lemma trav_fields_spec : forall (named : name -> json -> path -> vstate -> vstate) (A : inputvalue_def -> bool) ms p fs,
      (forall f, In f fs -> forall st,
            trav_field q var named f true (iv_type f) (obj_get (iv_name f) ms) (p ++ [PObj (iv_name f)]) st = None
            <-> st = None /\ A f = true) ->
      forall st, (fst (trav_fields q var named fs ms p st) = None <-> st = None /\ forallb A fs = true)
                 /\ (snd (trav_fields q var named fs ms p st) = true -> fst (trav_fields q var named fs ms p st) <> None).
  Proof.
    induction fs as [|f r IH]; intros Hf st; simpl.
    - split; [tauto|discriminate].
    - destruct st as [e|].
      + simpl. split; [split; [discriminate|intros [H _]; discriminate]|intros _; discriminate].
      + destruct (IH (fun f0 Hin => Hf f0 (or_intror Hin))
                     (trav_field q var named f true (iv_type f) (obj_get (iv_name f) ms) (p ++ [PObj (iv_name f)]) None)) as [H1 H2].
        split; auto.
        rewrite H1. rewrite (Hf f (or_introl eq_refl)). rewrite andb_true_iff. tauto.
  Qed.

  Lemma first_unknown_none : forall fs ms,
      first_unknown fs ms = None <-> (forall k, In k (map fst ms) -> find_ifield k fs <> None).
  Proof.
    induction ms as [|[k v] r IH]; simpl.
    - split; [intros _ k []|auto].
    - destruct (find_ifield k fs) eqn:E.
      + rewrite IH. split.
        * intros H k' [<-|Hin]; [congruence|auto].
        * intros H k' Hin. apply H. auto.
      + split; [discriminate|]. intros H. exfalso. apply (H k); auto.
  Qed.

  (* field-definition order with lookups (the code)  vs  member order with field lookups (the specification) *)
  Lemma object_equiv : forall fs ms,
      NoDup (map iv_name fs) -> NoDup (map fst ms) ->
      (forallb (fun f => accf f true (iv_type f) (obj_get (iv_name f) ms)) fs = true /\ first_unknown fs ms = None)
      <-> (members_ok d S fs ms = true /\ absent_ok fs ms = true).
  Proof.
    intros fs ms Hfs Hms. unfold members_ok, absent_ok.
    rewrite !forallb_forall. rewrite first_unknown_none. split.
    - intros [Hacc Hunk]. split.
      + intros [k v] Hin. simpl. rewrite field_named_find_ifield.
        destruct (find_ifield k fs) as [f|] eqn:E.
        * destruct (find_ifield_some _ _ _ E) as [Hinf Hname].
          specialize (Hacc f Hinf). rewrite Hname in Hacc.
          rewrite (obj_get_of_in ms k v Hms Hin) in Hacc. exact Hacc.
        * exfalso. apply (Hunk k); auto. apply in_map_iff. exists (k, v). auto.
      + intros f Hinf. specialize (Hacc f Hinf).
        destruct (obj_get (iv_name f) ms) as [v|] eqn:E.
        * destruct (obj_get_in _ _ _ E) as [k' [Ek Hin]]. subst.
          apply orb_true_iff. left. apply member_present_in. apply in_map_iff. exists (iv_name f, v). auto.
        * simpl in Hacc. unfold absent_field_ok. rewrite <- has_default_field, <- is_nonnull_ty.
          rewrite andb_true_r in Hacc. rewrite orb_comm in Hacc. rewrite Hacc. apply orb_true_r.
    - intros [Hmem Habs]. split.
      + intros f Hinf. destruct (obj_get (iv_name f) ms) as [v|] eqn:E.
        * destruct (obj_get_in _ _ _ E) as [k' [Ek Hin]]. subst.
          specialize (Hmem _ Hin). simpl in Hmem. rewrite field_named_find_ifield in Hmem.
          rewrite (find_ifield_of_in fs f Hfs Hinf) in Hmem. exact Hmem.
        * specialize (Habs f Hinf). simpl.
          apply orb_true_iff in Habs. destruct Habs as [Habs|Habs].
          -- apply member_present_in in Habs. apply obj_get_none in E. contradiction.
          -- unfold absent_field_ok in Habs. rewrite <- has_default_field, <- is_nonnull_ty in Habs.
             rewrite andb_true_r. rewrite orb_comm. exact Habs.
      + intros k Hin. apply in_map_iff in Hin. destruct Hin as [[k' v] [Ek Hin]]. simpl in Ek. subst.
        specialize (Hmem _ Hin). simpl in Hmem. rewrite field_named_find_ifield in Hmem.
        destruct (find_ifield k fs); [discriminate|discriminate Hmem].
  Qed.

  Lemma scalar_ok_spec : forall n j, scalar_ok q n j = scalar_coercible d n j.
  Proof.
    intros n j. unfold scalar_ok, scalar_coercible.
    destruct (bytes_eqb n n_String) eqn:E1; [apply bytes_eqb_eq in E1; subst; reflexivity|].
    destruct (bytes_eqb n n_Int) eqn:E2; [apply bytes_eqb_eq in E2; subst; reflexivity|].
    destruct (bytes_eqb n n_Float) eqn:E3; [apply bytes_eqb_eq in E3; subst; reflexivity|].
    destruct (bytes_eqb n n_Boolean) eqn:E4; [apply bytes_eqb_eq in E4; subst; reflexivity|].
    destruct (bytes_eqb n n_ID) eqn:E5; [apply bytes_eqb_eq in E5; subst; reflexivity|].
    change sp_Int with n_Int. change sp_Float with n_Float. change sp_String with n_String.
    change sp_Boolean with n_Boolean. change sp_ID with n_ID.
    rewrite E1, E2, E3, E4, E5. reflexivity.
  Qed.

  Lemma enum_lookup_spec : forall s vs,
      (match enum_lookup s vs with Some false => true | _ => false end)
      = match find (fun v => bytes_eqb s (ev_name v)) vs with
        | Some v => negb (dirs_have sp_inaccessible (ev_dirs v))
        | None => false
        end.
  Proof.
    induction vs as [|v r IH]; simpl; auto.
    destruct (bytes_eqb s (ev_name v)); auto.
    all: change sp_inaccessible with n_inaccessible; rewrite has_dir_dirs_have;
      destruct (dirs_have n_inaccessible (ev_dirs v)); auto.
  Qed.

  (* traverseOperationType *)
  Definition accop (t : ty) (oj : option json) : bool :=
    match oj with None => negb (is_nonnull t) | Some j => coercible_j d S j t end.

  Lemma trav_op_iff : forall (named : name -> json -> path -> vstate -> vstate) B,
      (forall n j p st, jnull j = false -> (jdepth j < B)%nat -> json_nodup j = true ->
                        (named n j p st = None <-> st = None /\ coercible_j d S j (TNamed n) = true)) ->
      forall t oj p st,
        IU t ->
        (forall j, oj = Some j -> (jdepth j < B)%nat /\ json_nodup j = true) ->
        (trav_op q var named t oj p st = None <-> st = None /\ accop t oj = true).
  Proof.
    intros named B Hnamed. unfold IU.
    induction t as [n|t' IH|t' IH]; intros oj p st HU Hoj.
    - simpl. destruct oj as [j|]; simpl; [|tauto].
      destruct (Hoj j eq_refl) as [Hd Hn].
      destruct j; try (apply Hnamed; auto; fail).
      rewrite coercible_j_eq. tauto.
    - simpl. destruct oj as [j|]; simpl; [|tauto].
      destruct (Hoj j eq_refl) as [Hd Hn].
      destruct j; rewrite coercible_j_eq; simpl; try (unfold mk; split; [discriminate|intros [_ H]; discriminate]).
      + tauto.
      + rewrite json_nodup_arr in Hn. rewrite forallb_forall in Hn.
        apply trav_elems_iff. intros x Hin p' st'.
        rewrite (IH (Some x) p' st'); auto.
        * simpl. tauto.
        * intros j E. inversion E; subst. split; [|apply Hn; auto].
          pose proof (jdepth_arr_in _ _ Hin). lia.
    - simpl. destruct oj as [j|]; simpl.
      + assert (Hup : q_upload_exempt q && bytes_eqb (named_of t') n_Upload = false).
        { destruct HU as [HU|HU]; [rewrite HU; auto|]. simpl in HU. rewrite HU. apply andb_false_r. }
        rewrite Hup. simpl. rewrite andb_true_r.
        rewrite (coercible_j_eq d S j (TNonNull t')). change (jnull j) with (is_null j).
        destruct (is_null j) eqn:En; simpl.
        * unfold mk. split; [discriminate|intros [_ H]; discriminate].
        * rewrite IH; auto. simpl. tauto.
      + unfold mk. split; [discriminate|intros [_ H]; discriminate].
  Qed.

  Hypothesis Hfields : fields_nodup S = true.
  Hypothesis HUs : q_upload_exempt q = false
                   \/ forall td f, In td (s_types S) -> In f (td_input_fields td) -> bytes_eqb (named_of (iv_type f)) n_Upload = false.
  Hypothesis HDs : (q_field_null_default q = false /\ q_elem_null_default q = false) \/ defaults_nullable_only S = true.

  Lemma trav_named_iff : forall fuel n j p st,
      jnull j = false -> (jdepth j < fuel)%nat -> json_nodup j = true ->
      (trav_named q S var fuel n j p st = None <-> st = None /\ coercible_j d S j (TNamed n) = true).
  Proof.
    induction fuel as [|fuel IH]; intros n j p st Hnn Hd Hnd; [lia|].
    assert (Hco : coercible_j d S j (TNamed n) = named_coercible d S n j).
    { rewrite coercible_j_eq. destruct j; auto. discriminate. }
    rewrite Hco. unfold named_coercible.
    destruct st as [e|].
    { destruct fuel; simpl; (split; [discriminate|intros [H _]; discriminate]). }
    assert (Htn : trav_named q S var (Datatypes.S fuel) n j p None =
                  match lookup S n with
                  | None => None
                  | Some td =>
                    match td_kind td with
                    | KInputObject =>
                      match j with
                      | JObj ms =>
                        let '(st1, early) := trav_fields q var (trav_named q S var fuel) (td_input_fields td) ms p None in
                        if early then st1 else
                          match first_unknown (td_input_fields td) ms with
                          | Some k => mk var p (EUnknownField k n)
                          | None =>
                            if has_dir n_oneOf (td_dirs td) then
                              match ms with
                              | [(k, JNull)] => mk var p (EOneOfNull n k)
                              | [_] => st1
                              | _ => mk var p (EOneOfCount n (length ms))
                              end
                            else st1
                          end
                      | _ => mk var p (ENotObject n)
                      end
                    | KScalar => if scalar_ok q n j then None else mk var p (EScalar n)
                    | KEnum =>
                      match j with
                      | JStr s =>
                        match enum_lookup s (td_enum_values td) with
                        | Some false => None
                        | _ => mk var p (EEnumValue n s)
                        end
                      | _ => mk var p (EEnumNonString n)
                      end
                    | _ => None
                    end
                  end) by reflexivity.
    rewrite Htn. clear Htn. unfold lookup.
    destruct (find_type n (s_types S)) as [td|] eqn:Eft; [|tauto].
    destruct (find_type_in _ _ _ Eft) as [Hintd _].
    destruct (td_kind td) eqn:Ek; try tauto.
    - (* scalar *)
      rewrite scalar_ok_spec. destruct (scalar_coercible d n j); unfold mk; [tauto|].
      split; [discriminate|intros [_ H]; discriminate].
    - (* enum *)
      unfold enum_coercible.
      destruct j; unfold mk; try (split; [discriminate|intros [_ H]; discriminate]).
      rewrite <- enum_lookup_spec.
      destruct (enum_lookup s (td_enum_values td)) as [[|]|]; try tauto;
        (split; [discriminate|intros [_ H]; discriminate]).
    - (* input object *)
      destruct j as [| | | |items|ms]; unfold mk; try (split; [discriminate|intros [_ H]; discriminate]).
      rewrite json_nodup_obj in Hnd. apply andb_true_iff in Hnd. destruct Hnd as [Hkeys Hvals].
      apply nodupb_NoDup in Hkeys. rewrite forallb_forall in Hvals.
      assert (Hfsnd : NoDup (map iv_name (td_input_fields td))).
      { unfold fields_nodup in Hfields. rewrite forallb_forall in Hfields. apply nodupb_NoDup. apply Hfields. auto. }
      (* every field is handled as the specification says *)
      assert (Hf : forall f, In f (td_input_fields td) -> forall st,
                   trav_field q var (trav_named q S var fuel) f true (iv_type f) (obj_get (iv_name f) ms) (p ++ [PObj (iv_name f)]) st = None
                   <-> st = None /\ accf f true (iv_type f) (obj_get (iv_name f) ms) = true).
      { intros f Hinf st. apply (trav_field_iff (trav_named q S var fuel) f fuel).
        - intros n' j' p' st' H1 H2 H3. apply IH; auto.
        - destruct HUs as [H|H]; [left; auto|right; eapply H; eauto].
        - destruct HDs as [H|H]; [left; auto|]. right. intros Hdef.
          unfold defaults_nullable_only in H. rewrite forallb_forall in H. specialize (H td Hintd).
          rewrite forallb_forall in H. specialize (H f Hinf). rewrite Hdef in H. simpl in H. exact H.
        - intros j' E. destruct (obj_get_in _ _ _ E) as [k' [Ek' Hin]]. subst. split.
          + pose proof (jdepth_obj_in _ _ _ Hin). lia.
          + apply (Hvals (iv_name f, j')). auto. }
      destruct (trav_fields_spec (trav_named q S var fuel) (fun f => accf f true (iv_type f) (obj_get (iv_name f) ms)) ms p
                                 (td_input_fields td) Hf None) as [Hst Hearly].
      destruct (trav_fields q var (trav_named q S var fuel) (td_input_fields td) ms p None) as [st1 early] eqn:Etf.
      simpl in Hst, Hearly.
      pose proof (object_equiv (td_input_fields td) ms Hfsnd Hkeys) as Hobj.
      rewrite has_dir_dirs_have. change n_oneOf with sp_oneOf.
      unfold oneof_ok.
      destruct early.
      + (* returned from inside the loop: an error is pending *)
        specialize (Hearly eq_refl).
        split; [intros H; contradiction|].
        intros [_ H]. exfalso. apply Hearly. apply Hst. split; auto.
        apply andb_true_iff in H. destruct H as [H _]. apply andb_true_iff in H. apply Hobj in H. tauto.
      + destruct (first_unknown (td_input_fields td) ms) as [k|] eqn:Efu.
        * unfold mk. split; [discriminate|]. intros [_ H]. exfalso.
          apply andb_true_iff in H. destruct H as [H _]. apply andb_true_iff in H. apply Hobj in H.
          destruct H as [_ H]. discriminate.
        * destruct (dirs_have sp_oneOf (td_dirs td)).
          -- destruct ms as [|[k v] [|kv2 r]].
             ++ unfold mk. split; [discriminate|]. intros [_ H]. rewrite andb_false_r in H. discriminate H.
             ++ destruct v; cbn [jnull negb];
                  try (rewrite Hst; rewrite andb_true_r; rewrite andb_true_iff; rewrite <- Hobj; tauto).
                unfold mk. split; [discriminate|]. intros [_ H]. rewrite andb_false_r in H. discriminate H.
             ++ destruct v; unfold mk; (split; [discriminate|]; intros [_ H]; rewrite andb_false_r in H; discriminate H).
          -- rewrite Hst. rewrite andb_true_r. rewrite andb_true_iff. rewrite <- Hobj. tauto.
  Qed.

End ValidatorProof.

(* ---- all variables ---- *)
Lemma fold_validate_iff : forall q S fuel vars (A : vardef -> bool) vds,
    (forall vd, In vd vds -> forall st, validate_var q S fuel vars st vd = None <-> st = None /\ A vd = true) ->
    forall st, fold_left (validate_var q S fuel vars) vds st = None <-> st = None /\ forallb A vds = true.
Proof.
  induction vds as [|vd r IH]; intros H st; simpl.
  - tauto.
  - rewrite IH by (intros; apply H; right; auto).
    rewrite (H vd (or_introl eq_refl)). rewrite andb_true_iff. tauto.
Qed.

Definition strip_default (vd : vardef) : vardef :=
  {| vd_name := vd_name vd; vd_type := vd_type vd; vd_default := None; vd_dirs := vd_dirs vd |}.

Lemma jdepth_jget : forall k vars v, jget k vars = Some v -> (jdepth v < jdepth vars)%nat.
Proof. intros k vars v H. destruct vars; simpl in H; try discriminate. eapply jdepth_obj_get; eauto. Qed.

Lemma json_nodup_jget : forall k vars v, json_nodup vars = true -> jget k vars = Some v -> json_nodup v = true.
Proof.
  intros k vars v Hn H. destruct vars; simpl in H; try discriminate.
  rewrite json_nodup_obj in Hn. apply andb_true_iff in Hn. destruct Hn as [_ Hn]. rewrite forallb_forall in Hn.
  destruct (obj_get_in _ _ _ H) as [k' [_ Hin]]. apply (Hn (k', v)). auto.
Qed.

(* The bare validator, for any quirk setting [q] whose Upload / default deviations are off or cannot fire:
   it accepts iff every variable's value coerces in the strict dialect of [q].  The validator does not
   look at the variables' own defaults (normalisation has moved them into the JSON), hence
   [strip_default]. *)
Theorem validate_iff_coercible : forall q S vds vars,
    fields_nodup S = true ->
    json_nodup vars = true ->
    (q_upload_exempt q = false \/ no_upload_ref S vds = true) ->
    ((q_field_null_default q = false /\ q_elem_null_default q = false) \/ defaults_nullable_only S = true) ->
    (validate q S vds vars = None <-> coercible_all (dialect_of q) S (map strip_default vds) vars = true).
Proof.
  intros q S vds vars Hf Hn HU HD.
  unfold validate, validate_fuel, coercible_all.
  rewrite forallb_forall.
  assert (HUs : q_upload_exempt q = false
                \/ forall td f, In td (s_types S) -> In f (td_input_fields td) -> bytes_eqb (named_of (iv_type f)) n_Upload = false).
  { destruct HU as [HU|HU]; [left; auto|right]. intros td f Htd Hfd.
    unfold no_upload_ref in HU. apply andb_true_iff in HU. destruct HU as [_ HU].
    rewrite forallb_forall in HU. specialize (HU td Htd). rewrite forallb_forall in HU. specialize (HU f Hfd).
    apply negb_true_iff in HU. exact HU. }
  rewrite (fold_validate_iff q S (Datatypes.S (jdepth vars)) vars
                             (fun vd => coercible_var (dialect_of q) S vars (strip_default vd)) vds).
  - rewrite forallb_forall. split.
    + intros [_ H] x Hin. apply in_map_iff in Hin. destruct Hin as [vd [<- Hin]]. auto.
    + intros H. split; auto. intros vd Hin. apply H. apply in_map. auto.
  - intros vd Hin st. unfold validate_var.
    rewrite (trav_op_iff q S (vd_name vd) (trav_named q S (vd_name vd) (Datatypes.S (jdepth vars))) (Datatypes.S (jdepth vars))).
    + unfold accop, coercible_var, coercible, strip_default, vd_hasdef. simpl.
      destruct (jget (vd_name vd) vars); simpl; tauto.
    + intros. apply trav_named_iff; auto.
    + destruct HU as [HU|HU]; [left; auto|right].
      unfold no_upload_ref in HU. apply andb_true_iff in HU. destruct HU as [HU _].
      rewrite forallb_forall in HU. specialize (HU vd Hin). apply negb_true_iff in HU. exact HU.
    + intros j E. split.
      * pose proof (jdepth_jget _ _ _ E). lia.
      * eapply json_nodup_jget; eauto.
Qed.
