(* C06 property theorems: statements only; every proof is [exact lemma]. *)
From Gv Require Import lib.Bytes lib.Json lib.Gql C06.Num C06.Model C06.Spec
     C06.ProofsBase C06.ProofsValidator C06.ProofsCoerce C06.ProofsPipeline C06.ProofsInject C06.ProofsOffender C06.ProofsEcho C06.Proofs.
From Coq Require Import List NArith Bool.
Import ListNotations.
Open Scope N_scope.

(* ---- accept_iff_coercible:  accepts go_quirks S reparse vds vars = true <-> coercible_all std S vds vars = true
        is REFUTED on the faithful model, once per confirmed cause.  [go_quirks] is the code as it is (one cause
        is left in it: the Upload exemption); the witnesses about [old_quirks] are HISTORICAL: those causes are
        repaired in /repo (KNOWN_FINDINGS "fixed:", the Int / ID ones included), their flags are off in
        [go_quirks], and the strengthened _partial theorem below covers their inputs ---- *)
Theorem c06_accept_iff_coercible_refuted_int_accepts_non_int32 :
  exists S vds vars, accepts old_quirks S no_reparse vds vars = true /\ coercible_all std S vds vars = false.
Proof. exact refuted_int_proof. Qed.
Print Assumptions c06_accept_iff_coercible_refuted_int_accepts_non_int32.

Theorem c06_accept_iff_coercible_refuted_int_1e100 :
  exists S vds vars, accepts old_quirks S no_reparse vds vars = true /\ coercible_all std S vds vars = false.
Proof. exact refuted_int_1e100_proof. Qed.
Print Assumptions c06_accept_iff_coercible_refuted_int_1e100.

Theorem c06_accept_iff_coercible_refuted_id_accepts_non_integer_number :
  exists S vds vars, accepts old_quirks S no_reparse vds vars = true /\ coercible_all std S vds vars = false.
Proof. exact refuted_id_proof. Qed.
Print Assumptions c06_accept_iff_coercible_refuted_id_accepts_non_integer_number.

Theorem c06_accept_iff_coercible_refuted_upload_exempt_from_non_null :
  exists S vds vars, accepts go_quirks S no_reparse vds vars = true /\ coercible_all std S vds vars = false.
Proof. exact refuted_upload_proof. Qed.
Print Assumptions c06_accept_iff_coercible_refuted_upload_exempt_from_non_null.

Theorem c06_accept_iff_coercible_refuted_field_null_uses_field_default :
  exists S vds vars, accepts old_quirks S no_reparse vds vars = true /\ coercible_all std S vds vars = false.
Proof. exact refuted_field_null_default_proof. Qed.
Print Assumptions c06_accept_iff_coercible_refuted_field_null_uses_field_default.

Theorem c06_accept_iff_coercible_refuted_list_element_null_uses_field_default :
  exists S vds vars, accepts old_quirks S no_reparse vds vars = true /\ coercible_all std S vds vars = false.
Proof. exact refuted_element_null_default_proof. Qed.
Print Assumptions c06_accept_iff_coercible_refuted_list_element_null_uses_field_default.

Theorem c06_accept_iff_coercible_refuted_inject_defaults_index_drift :
  exists S vds vars,
    pipeline old_quirks S no_reparse vds vars = PDone (JObj [(b_x, JArr [JObj [(b_k, num t_1)]; JObj []])]) None
    /\ coercible_all std S vds vars = false.
Proof. exact refuted_inject_drift_proof. Qed.
Print Assumptions c06_accept_iff_coercible_refuted_inject_defaults_index_drift.

Theorem c06_accept_iff_coercible_refuted_inject_defaults_enum_ref :
  exists S vds vars, pipeline old_quirks S no_reparse vds vars = PPanic /\ coercible_all std S vds vars = false.
Proof. exact refuted_inject_enum_ref_proof. Qed.
Print Assumptions c06_accept_iff_coercible_refuted_inject_defaults_enum_ref.

Theorem c06_accept_iff_coercible_refuted_inject_defaults_string_reparsed :
  exists S reparse vds vars,
    reparse b_braces = Some (JObj [])
    /\ pipeline old_quirks S reparse vds vars = PDone (JObj [(b_x, JObj [(b_d, num t_1)])]) None
    /\ coercible_all std S vds vars = false.
Proof. exact refuted_inject_reparse_proof. Qed.
Print Assumptions c06_accept_iff_coercible_refuted_inject_defaults_string_reparsed.

Theorem c06_accept_iff_coercible_refuted_remap_name_collision_upload :
  exists S vds vars, accepts old_quirks S no_reparse vds vars = true /\ coercible_all std S vds vars = false.
Proof. exact refuted_remap_collision_proof. Qed.
Print Assumptions c06_accept_iff_coercible_refuted_remap_name_collision_upload.

(* ---- accept_iff_coercible_partial: the engine pipeline of the code as it is, for every schema, operation and
        variables JSON, against the specification itself ([std]; the weakening of Int / ID to "JSON number" is
        gone with their repair).  The remaining Upload cause is excluded by [no_upload_ref]; everything else is
        well-formedness (unique names / keys, valid defaults) and the model's own recursion budget.  No
        condition on the shape of the values is left. ---- *)
Theorem c06_accept_iff_coercible_partial : forall S reparse vds ms,
    fields_nodup S = true ->
    oneof_no_defaults S = true ->
    field_defaults_ok std_strict S = true ->
    json_nodup (JObj ms) = true ->
    vars_nodup vds = true ->
    no_upload_ref S vds = true ->
    forallb (var_default_ok S std) vds = true ->
    normalise go_quirks S reparse vds ms <> NFuel ->
    (accepts go_quirks S reparse vds (JObj ms) = true <-> coercible_all std S vds (JObj ms) = true).
Proof. exact accept_iff_coercible_partial_proof. Qed.
Print Assumptions c06_accept_iff_coercible_partial.

(* default injection alone, as repaired, on EVERY value: what it returns coerces exactly when its input does, keys
   stay unique, null stays null; when it stops with an error the input does not coerce; it never panics *)
Theorem c06_default_injection_neutral : forall d S reparse,
    fields_nodup S = true -> field_defaults_ok d S = true -> oneof_no_defaults S = true ->
    forall fuel t v, json_nodup v = true -> good_res d S v t (inject go_quirks S reparse fuel t v).
Proof. intros d S reparse. exact (inject_ok d S reparse go_quirks eq_refl eq_refl eq_refl). Qed.
Print Assumptions c06_default_injection_neutral.

(* ---- the same pipeline with the remaining cause (Upload) repaired as well ---- *)
Theorem c06_accept_iff_coercible_repaired : forall S reparse vds ms,
    fields_nodup S = true ->
    oneof_no_defaults S = true ->
    field_defaults_ok std_strict S = true ->
    json_nodup (JObj ms) = true ->
    vars_nodup vds = true ->
    no_upload_ref S vds = true ->
    forallb (var_default_ok S std) vds = true ->
    normalise no_quirks S reparse vds ms <> NFuel ->
    (accepts no_quirks S reparse vds (JObj ms) = true <-> coercible_all std S vds (JObj ms) = true).
Proof. exact accept_iff_coercible_repaired_proof. Qed.
Print Assumptions c06_accept_iff_coercible_repaired.

(* ---- the bare validator against the strict specification (no list rule: that is normalisation's part) ---- *)
Theorem c06_validator_accept_iff_partial : forall S vds vars,
    fields_nodup S = true -> json_nodup vars = true ->
    no_upload_ref S vds = true ->
    (validate go_quirks S vds vars = None <-> coercible_all std_strict S (map strip_default vds) vars = true).
Proof. exact validator_accept_iff_partial_proof. Qed.
Print Assumptions c06_validator_accept_iff_partial.

Theorem c06_validator_accept_iff_repaired : forall S vds vars,
    fields_nodup S = true -> json_nodup vars = true ->
    (validate no_quirks S vds vars = None <-> coercible_all std_strict S (map strip_default vds) vars = true).
Proof. exact validator_accept_iff_repaired_proof. Qed.
Print Assumptions c06_validator_accept_iff_repaired.

(* ---- list coercion is the specification's list rule, on every schema, type and JSON value ---- *)
Theorem c06_list_coercion_correct : forall S j t,
    coercible_j std_strict S (coerce_j S j t) t = coercible_j std S j t.
Proof. exact list_coercion_correct_proof. Qed.
Print Assumptions c06_list_coercion_correct.

(* ---- error_names_offender: for every quirk setting, the reported variable and path denote an offending position ---- *)
Theorem c06_error_names_offender : forall q S vds vars e,
    fields_nodup S = true ->
    validate q S vds vars = Some e ->
    exists vd p, In vd vds /\ e_var e = vd_name vd /\ e_path e = PObj (vd_name vd) :: p /\
                 exists t hd oj, resolve S (map step_of p) (vd_type vd) false (jget (vd_name vd) vars) = Some (t, hd, oj)
                                 /\ coercible std_strict S t hd oj = false.
Proof. exact error_names_offender_proof. Qed.
Print Assumptions c06_error_names_offender.

(* "the FIRST offending position" is refuted: the pending error is overwritten by later writers *)
Theorem c06_error_names_first_offender_refuted :
  exists S vds vars e,
    validate go_quirks S vds vars = Some e
    /\ (exists vd, hd_error vds = Some vd /\ coercible_var std_strict S vars (strip_default vd) = false /\ e_var e <> vd_name vd).
Proof. exact first_offender_refuted_proof. Qed.
Print Assumptions c06_error_names_first_offender_refuted.

Theorem c06_error_names_first_offender_partial : forall S vd vars e,
    fields_nodup S = true -> json_nodup vars = true ->
    no_upload_ref S [vd] = true ->
    validate go_quirks S [vd] vars = Some e ->
    e_var e = vd_name vd /\ coercible_var std_strict S vars (strip_default vd) = false.
Proof. exact first_offender_single_variable_proof. Qed.
Print Assumptions c06_error_names_first_offender_partial.

(* ---- no_echo ---- *)
Theorem c06_no_echo_refuted_unknown_field_echo :
  exists S vds vars e,
    validate go_quirks S vds vars = Some e
    /\ In b_secret (err_names e) /\ ~ In b_secret (schema_names S vds)
    /\ render_msg e = s_Variable_ ++ b_x ++ s_got_invalid ++ s_at_ ++ quoted b_x ++ s_field_ ++ quoted b_secret
                      ++ s_is_not_defined_by_type_ ++ quoted b_In ++ s_dot.
Proof. exact no_echo_refuted_proof. Qed.
Print Assumptions c06_no_echo_refuted_unknown_field_echo.

Theorem c06_no_echo_partial : forall q S vds vars e,
    validate q S vds vars = Some e ->
    is_unknown_field (e_kind e) = false ->
    Forall (fun n => In n (schema_names S vds)) (err_names e)
    /\ render_msg e = render_msg (forget_value e).
Proof. exact no_echo_partial_proof. Qed.
Print Assumptions c06_no_echo_partial.

(* ---- the validator's fuel always suffices ---- *)
Theorem c06_validate_fuel_ok : forall q S vds vars e, validate q S vds vars = Some e -> e_kind e <> EOutOfFuel.
Proof. exact validate_fuel_ok_proof. Qed.
Print Assumptions c06_validate_fuel_ok.
